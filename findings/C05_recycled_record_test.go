//go:build test
// +build test

package isaacstates

import (
	"runtime"
	"runtime/debug"
	"testing"
	"time"

	"github.com/spikeekips/mitum/base"
	"github.com/spikeekips/mitum/isaac"
	"github.com/spikeekips/mitum/util/valuehash"
)

// TestVerifC05RecycledRecordStaleHold demonstrates that a voterecords object
// which is recycled through voterecordsPool carries the "hold" state
// (countAfter, lastthreshold) of the stage point it served before into the
// stage point it is handed out for next.
//
// Everything below goes through the real Ballotbox code paths; no field of
// voterecords is written by the test:
//
//	4 suffrage nodes; threshold 67 needs 3 of 4, threshold 100 needs 4 of 4.
//
//	A = INIT(33,0):   the local node votes with an expel, a 2nd node votes
//	                  without, a 3rd node votes for another proposal: 3
//	                  different facts -> countFromVoted() takes the "draw with
//	                  expels not yet; hold voteproof" branch and sets
//	                  vr.countAfter = now, vr.lastthreshold = 67.
//	the box moves on: ACCEPT(33,0) and INIT(34,0) reach majority; the
//	                  Ballotbox.clean() calls done by countVoterecords() first
//	                  schedule A's record and then voterecordsPoolPut() it.
//	B = ACCEPT(34,0): the threshold in force is now 100. The box hands out
//	                  a record for B: it is A's object, still holding A's
//	                  countAfter and lastthreshold=67. 3 of 4 nodes vote: no
//	                  voteproof under threshold 100. The ticker function
//	                  Ballotbox.countHoldeds() then tallies B with A's stale
//	                  threshold 67 and publishes a MAJORITY voteproof for B.
//
// A control box, which gets a fresh (not recycled) record for the very same B
// ballots, publishes nothing.
func TestVerifC05RecycledRecordStaleHold(t *testing.T) {
	// NOTE make sync.Pool reuse deterministic: one P, no GC, one goroutine
	// (voteAndWait() runs the count callback synchronously).
	defer runtime.GOMAXPROCS(runtime.GOMAXPROCS(1))
	defer debug.SetGCPercent(debug.SetGCPercent(-1))

	// NOTE drop whatever earlier tests of this package left in the pool
	for i := 0; i < 1<<12; i++ {
		_ = voterecordsPool.Get()
	}

	s := new(testBallotboxWithExpel)
	s.SetT(t)
	s.SetupSuite()
	s.SetupTest()

	suf, nodes := isaac.NewTestSuffrage(4)
	local, expelnode, other, another := nodes[0], nodes[1], nodes[2], nodes[3]
	voters := []base.LocalNode{local, other, another} // expelnode never votes

	th := base.Threshold(67) // 3 of 4
	s.Require().Equal(uint(3), th.Threshold(uint(suf.Len())))
	s.Require().Equal(uint(4), base.Threshold(100).Threshold(uint(suf.Len())))
	getThreshold := func() base.Threshold { return th }
	getSuffrage := func(base.Height) (base.Suffrage, bool, error) { return suf, true, nil }

	box := NewBallotbox(local.Address(), getThreshold, getSuffrage)
	box.SetCountAfter(time.Nanosecond) // hold duration; default is 5 seconds

	drain := func(b *Ballotbox) (vps []base.Voteproof) {
		for {
			select {
			case vp := <-b.Voteproof():
				vps = append(vps, vp)
			default:
				return vps
			}
		}
	}

	isRemoved := func(vr *voterecords) bool {
		removed, _ := box.removed.Value()
		for i := range removed {
			if removed[i] == vr {
				return true
			}
		}

		return false
	}

	// ---------------------------------------------------------------------
	// stage point A, INIT(33,0): driven into the hold state the same way as
	// testBallotboxWithExpel.TestINITBallotButDraw does
	pointA := base.RawPoint(33, 0)
	spA := base.NewStagePoint(pointA, base.StageINIT)

	var vrA *voterecords
	{
		prev, pr := valuehash.RandomSHA256(), valuehash.RandomSHA256()
		expels := s.expels(pointA.Height()-1, []base.Address{expelnode.Address()}, nodes)

		bl0 := s.initBallot(local, suf.Locals(), pointA, prev, pr, expels, nil)
		bl1 := s.initBallot(other, suf.Locals(), pointA, prev, pr, nil, nil)
		bl2 := s.initBallot(another, suf.Locals(), pointA, prev, valuehash.RandomSHA256(), nil, nil)
		s.Require().NoError(bl0.IsValid(s.networkID))
		s.Require().NoError(bl1.IsValid(s.networkID))
		s.Require().NoError(bl2.IsValid(s.networkID))

		s.Require().True(box.SetLastPoint(mustNewLastPoint(bl0.Voteproof().Point(), true, false)))

		voted, vps, err := box.voteAndWait(bl0)
		s.Require().NoError(err)
		s.Require().True(voted)
		s.Require().Empty(vps)

		voted, vps, err = box.voteAndWait(bl1)
		s.Require().NoError(err)
		s.Require().True(voted)
		s.Require().Empty(vps)

		voted, vps, err = box.voteAndWait(bl2)
		s.Require().NoError(err)
		s.Require().True(voted)
		s.Require().Empty(vps, "A is held, no voteproof")

		var found bool
		vrA, found = box.voterecords(spA, false)
		s.Require().True(found)

		// precondition: countFromVoted() really put A into the hold state
		s.Require().False(vrA.countAfter.IsZero(), "A: countFromVoted did not hold")
		s.Require().Equal(base.Threshold(67), vrA.lastthreshold)

		t.Logf("A=%v record=%p held: countAfter=%v lastthreshold=%v", spA, vrA, vrA.countAfter, vrA.lastthreshold)
	}

	holdA, thresholdA := vrA.countAfter, vrA.lastthreshold

	// ---------------------------------------------------------------------
	// the box moves on; A is never tallied (its INIT voteproof is learned from
	// the ACCEPT ballots of the other nodes, as in a real network), so nothing
	// ever clears its hold state.
	{
		point := pointA
		pr, block := valuehash.RandomSHA256(), valuehash.RandomSHA256()

		var got []base.Voteproof

		for _, n := range voters {
			bl := s.acceptBallot(n, suf.Locals(), point, pr, block, nil)

			voted, vps, err := box.voteAndWait(bl)
			s.Require().NoError(err)
			s.Require().True(voted)

			got = append(got, vps...)
		}

		s.Require().NotEmpty(got)
		last := got[len(got)-1]
		s.Require().Equal(base.NewStagePoint(point, base.StageACCEPT), last.Point())
		s.Require().Equal(base.VoteResultMajority, last.Result())

		_, found := box.voterecords(spA, false)
		s.Require().False(found, "A removed from the box by clean()")
		s.Require().True(isRemoved(vrA), "A scheduled for release by clean()")
	}

	{
		point := base.RawPoint(34, 0)
		prev, pr := valuehash.RandomSHA256(), valuehash.RandomSHA256()

		var got []base.Voteproof

		for _, n := range voters {
			bl := s.initBallot(n, suf.Locals(), point, prev, pr, nil, nil)

			voted, vps, err := box.voteAndWait(bl)
			s.Require().NoError(err)
			s.Require().True(voted)

			got = append(got, vps...)
		}

		s.Require().Len(got, 1)
		s.Require().Equal(base.NewStagePoint(point, base.StageINIT), got[0].Point())
		s.Require().Equal(base.VoteResultMajority, got[0].Result())

		// released by clean(): voterecordsPoolPut(A) was called
		s.Require().False(isRemoved(vrA))
		s.Require().True(vrA.stagepoint().IsZero(), "A released to the pool")
	}

	s.Require().Equal(base.NewStagePoint(base.RawPoint(34, 0), base.StageINIT), box.LastPoint().StagePoint)

	// ---------------------------------------------------------------------
	// stage point B, ACCEPT(34,0). The threshold in force is 100 now.
	th = base.Threshold(100)

	pointB := base.RawPoint(34, 0)
	spB := base.NewStagePoint(pointB, base.StageACCEPT)
	prB, blockB := valuehash.RandomSHA256(), valuehash.RandomSHA256()

	ballotsB := make([]base.Ballot, len(voters))
	for i := range voters {
		ballotsB[i] = s.acceptBallot(voters[i], suf.Locals(), pointB, prB, blockB, nil)
	}

	_ = drain(box)

	// NOTE this is the first thing Ballotbox.vote() does for a ballot of B
	vrB := box.newVoterecords(spB, false)
	if vrB != vrA {
		t.Skipf("sync.Pool did not hand out the recycled object (A=%p B=%p)", vrA, vrB)
	}

	s.Equal(spB, vrB.stagepoint())

	t.Logf("B=%v record=%p (recycled from A): countAfter=%v lastthreshold=%v", spB, vrB, vrB.countAfter, vrB.lastthreshold)

	// (1) the leak itself: a record handed out for B starts with A's hold
	s.True(vrB.countAfter.IsZero(),
		"LEAK: record handed out for %v starts with countAfter=%v of %v", spB, vrB.countAfter, spA)
	s.Equal(base.Threshold(0), vrB.lastthreshold,
		"LEAK: record handed out for %v starts with lastthreshold=%v of %v", spB, vrB.lastthreshold, spA)

	if !vrB.countAfter.IsZero() {
		s.True(holdA.Equal(vrB.countAfter), "stale countAfter is A's")
		s.Equal(thresholdA, vrB.lastthreshold, "stale lastthreshold is A's")
	}

	// (2) the consequence: 3 of 4 nodes vote B; threshold 100 needs 4
	for i := range ballotsB {
		voted, vps, err := box.voteAndWait(ballotsB[i])
		s.Require().NoError(err)
		s.Require().True(voted)
		s.Require().Empty(vps, "3 of 4 under threshold 100: not yet")
	}

	s.Require().Empty(drain(box))

	box.countHoldeds() // what Ballotbox.start() does on every tick

	published := drain(box)
	if len(published) > 0 { // NOTE not s.Empty(); it dumps the whole voteproof
		t.Errorf("countHoldeds() published %d voteproof(s) for %v, which was never held", len(published), spB)
	}

	for i := range published {
		vp := published[i]

		t.Logf("CONSEQUENCE: countHoldeds() published %v voteproof for %v with threshold=%v "+
			"(threshold in force=%v, %d of %d sign facts)",
			vp.Result(), vp.Point(), vp.Threshold(), th, len(vp.SignFacts()), suf.Len())

		s.Equal(spB, vp.Point())
		s.Equal(base.VoteResultMajority, vp.Result())
		s.Equal(thresholdA, vp.Threshold(), "tallied with threshold of A")
	}

	// ---------------------------------------------------------------------
	// control: same last point, same threshold, same ballots of B, but a fresh
	// record: nothing is published.
	{
		cbox := NewBallotbox(local.Address(), getThreshold, getSuffrage)
		cbox.SetCountAfter(time.Nanosecond)
		s.Require().True(cbox.SetLastPoint(box.LastPoint()))

		cvr := cbox.newVoterecords(spB, false)
		s.Require().False(cvr == vrA, "control record is fresh")
		s.Require().True(cvr.countAfter.IsZero())
		s.Require().Equal(base.Threshold(0), cvr.lastthreshold)

		for i := range ballotsB {
			voted, vps, err := cbox.voteAndWait(ballotsB[i])
			s.Require().NoError(err)
			s.Require().True(voted)
			s.Require().Empty(vps)
		}

		cbox.countHoldeds()

		s.Empty(drain(cbox), "control: fresh record, nothing held, nothing published")
	}
}
