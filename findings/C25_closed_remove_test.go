package leveldbstorage

import (
	"testing"

	leveldbStorage "github.com/syndtr/goleveldb/leveldb/storage"
)

func TestVerifClosedPrefixRemove(t *testing.T) {
	st, err := NewStorage(leveldbStorage.NewMemStorage(), nil)
	if err != nil {
		t.Fatal(err)
	}
	a := NewPrefixStorage(st, []byte("A/"))
	b := NewPrefixStorage(st, []byte("B/"))
	_ = a.Put([]byte("k1"), []byte("va"), nil)
	_ = b.Put([]byte("k1"), []byte("vb"), nil)
	_ = b.Put([]byte("k2"), []byte("vb2"), nil)

	_ = a.Close()

	seen := 0
	ierr := a.Iter(nil, func(k, v []byte) (bool, error) { seen++; return true, nil }, true)
	t.Logf("Iter through closed prefix storage A: err=%v, records shown=%d", ierr, seen)

	rerr := a.Remove()
	_, foundb1, _ := b.Get([]byte("k1"))
	_, foundb2, _ := b.Get([]byte("k2"))
	t.Logf("Remove through closed prefix storage A: err=%v; B/k1 still there=%v B/k2 still there=%v", rerr, foundb1, foundb2)
	if seen > 0 {
		t.Errorf("closed prefix storage A was shown %d records, all outside its use", seen)
	}
	if !foundb1 || !foundb2 {
		t.Errorf("removing prefix A deleted keys under prefix B")
	}
}
