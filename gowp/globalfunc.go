package gowp

import (
	"golang.org/x/tools/go/ssa"
)

// globalFuncOf: v is a load of a package-level func variable that a contract
// declares read-only (`global <name> nonnil|const`); returns the function it
// is initialised with in the package initialiser (a func literal without free
// variables or a named function), or nil.
func (e *Engine) globalFuncOf(v ssa.Value) *ssa.Function {
	u, ok := v.(*ssa.UnOp)
	if !ok {
		return nil
	}
	g, ok := u.X.(*ssa.Global)
	if !ok || !e.isConstGlobal(g) || g.Pkg == nil {
		return nil
	}
	if fn, ok := e.globalFuncs[g]; ok {
		return fn
	}
	if e.globalFuncs == nil {
		e.globalFuncs = map[*ssa.Global]*ssa.Function{}
	}
	var found *ssa.Function
	n := 0
	if init := g.Pkg.Func("init"); init != nil {
		for _, b := range init.Blocks {
			for _, in := range b.Instrs {
				s, ok := in.(*ssa.Store)
				if !ok || s.Addr != ssa.Value(g) {
					continue
				}
				n++
				switch x := s.Val.(type) {
				case *ssa.Function:
					found = x
				case *ssa.MakeClosure:
					if len(x.Bindings) == 0 {
						found, _ = x.Fn.(*ssa.Function)
					}
				case *ssa.ChangeType:
					if f, ok := x.X.(*ssa.Function); ok {
						found = f
					}
				}
			}
		}
	}
	if n != 1 {
		found = nil
	}
	e.globalFuncs[g] = found
	return found
}
