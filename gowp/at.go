package gowp

// at(off, i) = off + i, kept as an uninterpreted application (with a defining
// axiom) so that index terms keep their shape for e-matching: solvers rewrite
// (+ off 0) to off, after which a pattern (select a (+ off ?i)) no longer
// matches the read of element 0.
func (e *Engine) at(off, i string) string {
	if off == "0" {
		return i
	}
	e.declOnce("fun:at", "(declare-fun at (Int Int) Int)")
	e.declOnce("axiom:at", "(assert (forall ((o Int) (i Int)) (! (= (at o i) (+ o i)) :pattern ((at o i)))))")
	return sx("at", off, i)
}
