package gowp

import (
	"fmt"
	"go/token"
	"go/types"
	"strings"

	"golang.org/x/tools/go/ssa"
)

const (
	token_LSS = token.LSS
	token_GTR = token.GTR
)

// modSet: what a loop body may modify (computed statically).
type modSet struct {
	all    bool
	comps  map[string]string      // component -> sort (whole component havoc)
	fields map[string][]ssa.Value // component -> base pointers defined outside the loop (refined havoc)
	fsort  map[string]string
	cells  map[*ssa.Alloc]bool
	iters  map[ssa.Value]bool
	ghosts map[string]bool
	why    []string
	fresh  map[string]string       // components changed only at freshly allocated references
	topFn  *ssa.Function           // the function whose code is scanned at depth 0
	subst  map[ssa.Value]ssa.Value // free variable of a nested closure -> value bound to it
	// slices held in captured variables that the scanned code never assigns:
	// component -> the variables (their cells); only that slice's region changes
	sliceCells map[string][]ssa.Value
	// closures called through a value defined before the loop: resolved (and
	// their bodies scanned) when the mod set is applied
	cloCalls map[ssa.Value]bool
}

func newModSet() *modSet {
	return &modSet{comps: map[string]string{}, fields: map[string][]ssa.Value{}, fsort: map[string]string{}, cells: map[*ssa.Alloc]bool{}, iters: map[ssa.Value]bool{}, ghosts: map[string]bool{}}
}

func (e *Engine) loopMods(fn *ssa.Function, li *loopInfo) *modSet {
	ms := newModSet()
	ms.topFn = fn
	for b := range li.body {
		e.scanBlockMods(b, li, ms, 0, map[*ssa.Function]bool{fn: true})
	}
	return ms
}

// addFresh: the component changes only at references allocated by the code
// being summarised.
func (ms *modSet) addFresh(c, s string) {
	if ms.fresh == nil {
		ms.fresh = map[string]string{}
	}
	ms.fresh[c] = s
}

func (e *Engine) addCompWhole(ms *modSet, c, s string) {
	ms.comps[c] = s
	delete(ms.fields, c)
	delete(ms.sliceCells, c)
}

// storesToCell: does fn (or a function literal nested in it) assign the
// captured variable whose cell is v?
func storesToCell(fn *ssa.Function, v ssa.Value) bool {
	for _, b := range fn.Blocks {
		for _, in := range b.Instrs {
			if st, ok := in.(*ssa.Store); ok && st.Addr == v {
				return true
			}
			if mc, ok := in.(*ssa.MakeClosure); ok {
				for _, bd := range mc.Bindings {
					if bd == v {
						return true // escapes into another closure: give up
					}
				}
			}
		}
	}
	return false
}

// rootAddr walks FieldAddr/IndexAddr chains back to their base.
func rootAddr(v ssa.Value) (root ssa.Value, firstField *ssa.FieldAddr) {
	for {
		switch x := v.(type) {
		case *ssa.FieldAddr:
			firstField = x
			v = x.X
			if _, isPtrToStruct := x.X.Type().Underlying().(*types.Pointer); isPtrToStruct {
				if _, ok := x.X.(*ssa.FieldAddr); !ok {
					if _, ok2 := x.X.(*ssa.IndexAddr); !ok2 {
						return x.X, firstField
					}
				}
			}
		case *ssa.IndexAddr:
			return x, firstField
		default:
			return v, firstField
		}
	}
}

func definedOutside(v ssa.Value, li *loopInfo) bool {
	switch x := v.(type) {
	case *ssa.Parameter, *ssa.FreeVar, *ssa.Const, *ssa.Global, *ssa.Function:
		return true
	case ssa.Instruction:
		if li == nil {
			return false
		}
		return !li.body[x.Block()]
	}
	return false
}

func (e *Engine) scanStoreTarget(addr ssa.Value, li *loopInfo, ms *modSet, inCallee bool) {
	// find the innermost base
	v := addr
	var chain []ssa.Value
	for {
		chain = append(chain, v)
		switch x := v.(type) {
		case *ssa.FieldAddr:
			v = x.X
			continue
		case *ssa.IndexAddr:
			if _, ok := x.X.Type().Underlying().(*types.Pointer); ok {
				// index into *array
				v = x.X
				continue
			}
		}
		break
	}
	base := chain[len(chain)-1]
	switch b := base.(type) {
	case *ssa.Alloc:
		et := b.Type().(*types.Pointer).Elem()
		if _, isArr := et.Underlying().(*types.Array); isArr {
			at := et.Underlying().(*types.Array)
			c, s := e.elemComp(at.Elem())
			e.addCompWhole(ms, c, s)
			return
		}
		if !b.Heap {
			ms.cells[b] = true
			return
		}
		// an object allocated by the summarised code itself: fresh reference
		inside := inCallee || li == nil || li.body[b.Block()]
		if _, isStruct := et.Underlying().(*types.Struct); isStruct && len(chain) > 1 {
			fa := chain[len(chain)-2].(*ssa.FieldAddr)
			si := e.structInfoOf(et)
			c, s := e.fieldComp(si, fa.Field)
			if inside {
				ms.addFresh(c, s)
				return
			}
			e.addField(ms, c, s, b, li, inCallee)
			return
		}
		c, s := e.ptrComp(et)
		if inside {
			ms.addFresh(c, s)
			return
		}
		e.addField(ms, c, s, b, li, inCallee)
		return
	case *ssa.Global:
		et := b.Type().(*types.Pointer).Elem()
		ms.comps[quoteSym("G$"+b.Pkg.Pkg.Name()+"."+b.Name())] = e.sortOf(et)
		return
	case *ssa.IndexAddr:
		// slice element
		sl, ok := b.X.Type().Underlying().(*types.Slice)
		if !ok {
			ms.all = true
			ms.why = append(ms.why, "indexaddr base")
			return
		}
		c, s := e.elemComp(sl.Elem())
		// only the region of that slice changes when the slice value itself
		// is loop-invariant (addField falls back to the whole component)
		if u, ok := b.X.(*ssa.UnOp); ok && u.Op == token.MUL && !inCallee {
			if fv, ok := u.X.(*ssa.FreeVar); ok && fv.Parent() == ms.topFn && !storesToCell(ms.topFn, fv) {
				if _, whole := ms.comps[c]; !whole {
					if ms.sliceCells == nil {
						ms.sliceCells = map[string][]ssa.Value{}
					}
					ms.sliceCells[c] = append(ms.sliceCells[c], fv)
					ms.fsort[c] = s
				}
				return
			}
		}
		e.addField(ms, c, s, b.X, li, inCallee)
		return
	}
	// pointer value: struct field or plain pointer cell
	pt, ok := base.Type().Underlying().(*types.Pointer)
	if !ok {
		ms.all = true
		ms.why = append(ms.why, fmt.Sprintf("store base %T", base))
		return
	}
	if _, isStruct := pt.Elem().Underlying().(*types.Struct); isStruct && len(chain) > 1 {
		if fa, ok := chain[len(chain)-2].(*ssa.FieldAddr); ok {
			si := e.structInfoOf(pt.Elem())
			c, s := e.fieldComp(si, fa.Field)
			e.addField(ms, c, s, base, li, inCallee)
			return
		}
	}
	if _, isStruct := pt.Elem().Underlying().(*types.Struct); isStruct {
		si := e.structInfoOf(pt.Elem())
		for i := range si.fields {
			c, s := e.fieldComp(si, i)
			e.addField(ms, c, s, base, li, inCallee)
		}
		return
	}
	if at, isArr := pt.Elem().Underlying().(*types.Array); isArr {
		c, s := e.elemComp(at.Elem())
		e.addCompWhole(ms, c, s)
		return
	}
	c, s := e.ptrComp(pt.Elem())
	e.addField(ms, c, s, base, li, inCallee)
}

func (e *Engine) addField(ms *modSet, c, s string, base ssa.Value, li *loopInfo, inCallee bool) {
	if _, whole := ms.comps[c]; whole {
		return
	}
	// free variables of closures created and called inside the scanned code
	// stand for the values bound to them
	for i := 0; i < 8; i++ {
		nb, ok := ms.subst[base]
		if !ok {
			break
		}
		base = nb
	}
	if inCallee {
		// inside an inlined callee only values of the scanned top-level
		// function (reached through closure bindings) are stable bases
		ok := false
		switch x := base.(type) {
		case *ssa.Parameter:
			ok = x.Parent() == ms.topFn
		case *ssa.FreeVar:
			ok = x.Parent() == ms.topFn
		case ssa.Instruction:
			ok = x.Parent() == ms.topFn && definedOutside(base, li)
		}
		if !ok {
			e.addCompWhole(ms, c, s)
			return
		}
	} else if !definedOutside(base, li) {
		e.addCompWhole(ms, c, s)
		return
	}
	ms.fsort[c] = s
	for _, b := range ms.fields[c] {
		if b == base {
			return
		}
	}
	ms.fields[c] = append(ms.fields[c], base)
}

func (e *Engine) scanBlockMods(b *ssa.BasicBlock, li *loopInfo, ms *modSet, depth int, seen map[*ssa.Function]bool) {
	for _, in := range b.Instrs {
		switch x := in.(type) {
		case *ssa.Store:
			e.scanStoreTarget(x.Addr, li, ms, depth > 0)
		case *ssa.MapUpdate:
			mt := x.Map.Type().Underlying().(*types.Map)
			mv, mvs, mh, mhs := e.mapComps(mt)
			ml, mls := e.mapLenComp()
			ms.comps[mv], ms.comps[mh], ms.comps[ml] = mvs, mhs, mls
		case *ssa.Next:
			ms.iters[x.Iter] = true
		case *ssa.MakeMap:
			mt := x.Type().Underlying().(*types.Map)
			_, _, mh, mhs := e.mapComps(mt)
			ml, mls := e.mapLenComp()
			ms.comps[mh], ms.comps[ml] = mhs, mls
			ms.comps["$alloc"] = "(Array Int Bool)"
		case *ssa.MakeSlice:
			et := x.Type().Underlying().(*types.Slice).Elem()
			c, s := e.elemComp(et)
			ms.addFresh(c, s)
			ms.comps["$alloc"] = "(Array Int Bool)"
		case *ssa.Alloc:
			// a fresh object changes its components only at a reference that
			// was not allocated before (addFresh)
			et := x.Type().(*types.Pointer).Elem()
			if at, ok := et.Underlying().(*types.Array); ok {
				c, s := e.elemComp(at.Elem())
				ms.addFresh(c, s)
				ms.comps["$alloc"] = "(Array Int Bool)"
			} else if x.Heap {
				ms.comps["$alloc"] = "(Array Int Bool)"
				if si := e.structInfoOf(et); si != nil {
					for i := range si.fields {
						c, s := e.fieldComp(si, i)
						ms.addFresh(c, s)
					}
				} else {
					c, s := e.ptrComp(et)
					ms.addFresh(c, s)
				}
			} else if depth == 0 {
				ms.cells[x] = true
			}
		case *ssa.Convert:
			if sl, ok := x.Type().Underlying().(*types.Slice); ok {
				c, s := e.elemComp(sl.Elem())
				ms.addFresh(c, s)
				ms.comps["$alloc"] = "(Array Int Bool)"
			}
		case *ssa.Go:
			ms.all = true
			ms.why = append(ms.why, "go statement")
		case ssa.CallInstruction:
			e.scanCallMods(x.Common(), li, ms, depth, seen)
		}
	}
}

func (e *Engine) scanCallMods(call *ssa.CallCommon, li *loopInfo, ms *modSet, depth int, seen map[*ssa.Function]bool) {
	if call.IsInvoke() {
		m := call.Method
		if c := e.ifaceContract(m); c != nil {
			e.contractMods(c, ms)
			return
		}
		pk := ""
		if m.Pkg() != nil {
			pk = m.Pkg().Path()
		}
		if isEffectFreePkg(pk) || (m.Name() == "Error" && pk == "") {
			return
		}
		// abstract interface methods are modelled as pure (A9), unless they
		// take function values (they may call them)
		sig := m.Type().(*types.Signature)
		for i := 0; i < sig.Params().Len(); i++ {
			if _, ok := sig.Params().At(i).Type().Underlying().(*types.Signature); ok {
				ms.all = true
				ms.why = append(ms.why, "interface method with callbacks "+m.Name())
			}
		}
		return
	}
	if b, ok := call.Value.(*ssa.Builtin); ok {
		switch b.Name() {
		case "append", "copy":
			if sl, ok := call.Args[0].Type().Underlying().(*types.Slice); ok {
				c, s := e.elemComp(sl.Elem())
				e.addCompWhole(ms, c, s)
				ms.comps["$alloc"] = "(Array Int Bool)"
			}
		case "delete", "clear":
			if mt, ok := call.Args[0].Type().Underlying().(*types.Map); ok {
				_, _, mh, mhs := e.mapComps(mt)
				ml, mls := e.mapLenComp()
				ms.comps[mh], ms.comps[ml] = mhs, mls
			}
		}
		return
	}
	var fn *ssa.Function
	switch v := call.Value.(type) {
	case *ssa.Function:
		fn = v
	case *ssa.MakeClosure:
		fn = v.Fn.(*ssa.Function)
		if ms.subst == nil {
			ms.subst = map[ssa.Value]ssa.Value{}
		}
		for i, fv := range fn.FreeVars {
			if i < len(v.Bindings) {
				ms.subst[fv] = v.Bindings[i]
			}
		}
	}
	if fn == nil {
		fn = e.globalFuncOf(call.Value) // read-only package-level func variable
	}
	if fn == nil && e.curContract != nil {
		if g := e.curContract.FnParamCounts[fnParamName(call.Value)]; g != "" {
			ms.ghosts[g] = true // the invocation counter changes with every call
		}
	}
	if fn == nil && e.curContract != nil && e.curContract.FnParamPure[fnParamName(call.Value)] {
		return // assumed effect-free (fnparam ... pure)
	}
	if fn == nil && depth == 0 && li != nil && definedOutside(call.Value, li) {
		if _, isSig := call.Value.Type().Underlying().(*types.Signature); isSig {
			if ms.cloCalls == nil {
				ms.cloCalls = map[ssa.Value]bool{}
			}
			ms.cloCalls[call.Value] = true
			return
		}
	}
	if fn == nil {
		ms.all = true
		ms.why = append(ms.why, "call through function value")
		return
	}
	name := fn.String()
	if _, ok := externs[name]; ok {
		if m, ok := externMods[name]; ok {
			m(e, call, ms)
		}
		return
	}
	if c := e.contractFor(fn); c != nil && !c.Inline {
		e.modsCallee = fn // the actual (possibly generic-instantiated) callee
		e.contractMods(c, ms)
		e.modsCallee = nil
		return
	}
	pp := ""
	if fn.Pkg != nil {
		pp = fn.Pkg.Pkg.Path()
	}
	if isEffectFreePkg(pp) || pureExterns[name] || isErrCtor(name) {
		return
	}
	if fn.Blocks == nil || depth > 4 || seen[fn] {
		ms.all = true
		ms.why = append(ms.why, "unmodelled call "+name)
		return
	}
	seen[fn] = true
	for _, b := range fn.Blocks {
		e.scanBlockMods(b, nil, ms, depth+1, seen)
	}
	delete(seen, fn)
}

// contractMods maps a contract's modifies clauses to whole components.
func (e *Engine) contractMods(c *Contract, ms *modSet) {
	for _, m := range c.Modifies {
		for _, loc := range splitTop(m.Text, ',') {
			loc = strings.TrimSpace(loc)
			if loc == "*" {
				ms.all = true
				ms.why = append(ms.why, "contract modifies *")
				continue
			}
			if loc == "" || loc == "nothing" {
				continue
			}
			if strings.HasPrefix(loc, "ghost:") {
				ms.ghosts[strings.TrimPrefix(loc, "ghost:")] = true
				continue
			}
			// static resolution needs types only: evaluate in a throw-away state
			fn := e.modsCallee
			if fn == nil {
				fn = e.FindFunc(c)
			}
			st := e.newState()
			env := &Env{e: e, st: st, sink: st, names: map[string]*Val{}, callArg: true}
			if fn != nil {
				env.tparams = typeParamsOf(fn)
				if fn.Pkg != nil {
					env.pkg = fn.Pkg.Pkg
				} else if o := fn.Origin(); o != nil && o.Pkg != nil {
					env.pkg = o.Pkg.Pkg
				}
				for _, p := range fn.Params {
					env.names[p.Name()] = &Val{T: "dummy", Ty: p.Type()}
				}
			} else {
				ms.all = true
				ms.why = append(ms.why, "contract modifies of unresolved function "+c.Key)
				continue
			}
			before := map[string]string{}
			e.quiet++
			func() {
				defer func() {
					if r := recover(); r != nil {
						ms.all = true
						ms.why = append(ms.why, fmt.Sprintf("modifies %s: %v", loc, r))
					}
				}()
				e.havocLoc(st, env, loc)
			}()
			e.quiet--
			for k := range st.heap {
				if _, ok := before[k]; !ok && !strings.HasPrefix(k, "IT$") {
					if srt, ok := st.ghost["$sort:"+k]; ok {
						ms.comps[k] = srt
						delete(ms.fields, k)
					}
				}
			}
		}
	}
}

// ---- loop entry / back edge ---------------------------------------------------

func (e *Engine) loopSpec(fr *Frame, li *loopInfo) *LoopSpec {
	// contract of the function that syntactically contains the loop
	c := fr.contract
	if c == nil {
		c = e.contractFor(fr.fn)
	}
	if c == nil {
		return nil
	}
	return c.Loops[li.ordinal]
}

func (e *Engine) invEnv(st *State, fr *Frame, b *ssa.BasicBlock) *Env {
	env := e.envFor(st, fr)
	env.useVars = true
	env.pre = fr.loopPre[b]
	return env
}

func (e *Engine) bindPhis(st *State, fr *Frame, b *ssa.BasicBlock, predIdx int) {
	var nv []*Val
	var ph []*ssa.Phi
	for _, in := range b.Instrs {
		p, ok := in.(*ssa.Phi)
		if !ok {
			break
		}
		ph = append(ph, p)
		nv = append(nv, e.get(st, p.Edges[predIdx]))
	}
	for i, p := range ph {
		fr.vals[p] = nv[i]
		if p.Comment != "" {
			fr.vars[p.Comment] = nv[i]
		}
	}
}

func (e *Engine) loopEnter(st *State, fr *Frame, b *ssa.BasicBlock, li *loopInfo, predIdx int) {
	ls := e.loopSpec(fr, li)
	e.bindPhis(st, fr, b, predIdx)
	fr.loopPre[b] = st.snapshot()
	if ri := e.rangeIndexInv(st, fr, b); ri != "" {
		e.emit(st, "inv-init", fmt.Sprintf("inv-init#%s.%d.range-index", fr.fn.Name(), li.ordinal), ri, "range loop index stays within -1 .. len-1")
	}
	if ls != nil {
		env := e.invEnv(st, fr, b)
		if len(ls.InitHints) > 0 {
			henv := e.invEnv(st, fr, b)
			henv.assuming = true
			for _, h := range ls.InitHints {
				st.assume(e.evalBool(henv, h))
			}
		}
		for i, inv := range ls.Invariants {
			label := inv.Label
			if label == "" {
				label = fmt.Sprint(i)
			}
			e.emit(st, "inv-init", fmt.Sprintf("inv-init#%s.%d.%s", fr.fn.Name(), li.ordinal, label), e.evalBool(env, inv), "loop invariant holds on entry: "+inv.Text)
		}
	}
	// havoc
	ms := e.loopMods(fr.fn, li)
	e.applyModSet(st, ms, func(v ssa.Value) *Val {
		if r, ok := fr.vals[v]; ok {
			return r
		}
		return e.get(st, v)
	})
	// phis
	for _, in := range b.Instrs {
		p, ok := in.(*ssa.Phi)
		if !ok {
			break
		}
		cur := fr.vals[p]
		if cur != nil && (cur.Clo != nil || cur.Iter != nil || cur.Addr != nil) {
			continue // engine-level values are loop-invariant by construction or unsupported to vary
		}
		hint := p.Comment
		if hint == "" {
			hint = p.Name()
		}
		fv := e.freshVal(st, fr.fn.Name()+"."+hint, p.Type())
		fr.vals[p] = fv
		if p.Comment != "" {
			fr.vars[p.Comment] = fv
		}
	}
	if ri := e.rangeIndexInv(st, fr, b); ri != "" {
		st.assume(ri)
	}
	if ls != nil {
		env := e.invEnv(st, fr, b)
		env.assuming = true
		for _, inv := range ls.Invariants {
			st.assume(e.evalBool(env, inv))
		}
		for _, h := range ls.Hints {
			st.assume(e.evalBool(env, h))
		}
		if ls.Decreases != nil {
			v := env.eval(ls.Decreases.Expr)
			fr.variant[b] = e.named(st, "variant", v.T, "Int")
		}
	}
	st.trace = append(st.trace, fmt.Sprintf("%s: loop %d arbitrary iteration", fr.fn.Name(), li.ordinal))
}

// applyModSet forgets everything a loop body / callback may modify.
// resolve maps an SSA value (a base pointer defined outside the loop, an
// Alloc, a Range iterator) to its current symbolic value.
func (e *Engine) applyModSet(st *State, ms *modSet, resolve func(ssa.Value) *Val) {
	if ms.all {
		// unknown code runs in the loop: everything except objects still
		// private to the verified function (their own modifications by the
		// loop are havoc'd explicitly below)
		e.havocAllKeepPrivate(st)
		// unknown code may call the counted function values any number of times
		if e.curContract != nil {
			for _, g := range e.curContract.FnParamCounts {
				e.ghostHavoc(st, g)
			}
		}
		st.taint["loop havoc all: "+strings.Join(ms.why, "; ")] = true
		if traceInline {
			fmt.Println("HAVOC-ALL in loop/callback:", strings.Join(ms.why, "; "))
		}
	}
	// components touched only by fresh allocations: unchanged at every
	// reference that was allocated before
	for c, s := range ms.fresh {
		if _, whole := ms.comps[c]; whole || !strings.HasPrefix(s, "(Array Int ") {
			continue
		}
		old := e.heapGet(st, c, s)
		al := e.allocGet(st)
		n := e.freshName("loop$" + strings.Trim(c, "|"))
		st.declare(n, s)
		qi := quoteSym("q$r")
		st.assume(fmt.Sprintf("(forall ((%s Int)) (! (=> (select %s %s) (= (select %s %s) (select %s %s))) :pattern ((select %s %s))))", qi, al, qi, n, qi, old, qi, n, qi))
		st.heap[c] = n
		st.ghost["$sort:"+c] = s
	}
	for c, s := range ms.comps {
		if strings.HasPrefix(strings.Trim(c, "|"), "P$") {
			st.privClean = nil
		}
		n := e.freshName("loop$" + strings.Trim(c, "|"))
		st.declare(n, s)
		if c == "$alloc" {
			// allocation only grows
			old := e.allocGet(st)
			qi := quoteSym("q$r")
			st.assume(fmt.Sprintf("(forall ((%s Int)) (=> (select %s %s) (select %s %s)))", qi, old, qi, n, qi))
		}
		st.heap[c] = n
		st.ghost["$sort:"+c] = s
	}
	{
		for c, bases := range ms.fields {
			s := ms.fsort[c]
			h := e.heapGet(st, c, s)
			inner := strings.TrimSuffix(strings.TrimPrefix(s, "(Array Int "), ")")
			for _, bv := range bases {
				bt := resolve(bv)
				ref := e.valTerm(bt)
				if _, isSl := bt.Ty.Underlying().(*types.Slice); isSl {
					ref = sx("sl_reg", ref) // element component: indexed by region
				}
				delete(st.privClean, ref)
				delete(st.privClean, "holds:"+ref)
				fv := e.freshName("loop$" + strings.Trim(c, "|"))
				st.declare(fv, inner)
				h = sx("store", h, ref, fv)
			}
			e.heapSet(st, c, s, h)
		}
	}
	for al := range ms.cells {
		if v := resolveOpt(resolve, al); v != nil && v.Addr != nil && v.Addr.Kind == aCell {
			fv := e.freshVal(st, "loop$"+al.Comment, v.Addr.Cell.ty)
			st.cells[v.Addr.Cell] = fv.T
		}
	}
	for itv := range ms.iters {
		if v := resolveOpt(resolve, itv); v != nil && v.Iter != nil {
			mt := v.Iter.m.Ty.Underlying().(*types.Map)
			ks := e.sortOf(mt.Key())
			nv := e.freshName("loop$visited")
			st.declare(nv, fmt.Sprintf("(Array %s Bool)", ks))
			st.heap[v.Iter.visited] = nv
			nc := e.freshName("loop$count")
			st.declare(nc, "Int")
			st.assume(sx("<=", "0", nc))
			st.heap[v.Iter.count] = nc
			// sanity of the ghost state: visited keys are present; count bounded
			_, _, mh, mhs := e.mapComps(mt)
			ml, mls := e.mapLenComp()
			qk := quoteSym("q$k")
			hasArr := sx("select", e.heapGet(st, mh, mhs), v.Iter.m.T)
			st.assume(fmt.Sprintf("(forall ((%s %s)) (=> (select %s %s) (select %s %s)))", qk, ks, nv, qk, hasArr, qk))
			st.assume(sx("<=", nc, sx("select", e.heapGet(st, ml, mls), v.Iter.m.T)))
		}
	}
	for g := range ms.ghosts {
		e.ghostHavoc(st, g)
	}
	for c, cells := range ms.sliceCells {
		if _, whole := ms.comps[c]; whole {
			continue
		}
		sort := ms.fsort[c]
		h := e.heapGet(st, c, sort)
		inner := strings.TrimSuffix(strings.TrimPrefix(sort, "(Array Int "), ")")
		for _, cv := range cells {
			pv := resolve(cv)
			cur := e.load(st, e.addrOf(pv))
			fv := e.freshName("loop$" + strings.Trim(c, "|"))
			st.declare(fv, inner)
			h = sx("store", h, sx("sl_reg", cur), fv)
		}
		e.heapSet(st, c, sort, h)
	}
	for cv := range ms.cloCalls {
		if r := resolveOpt(resolve, cv); r != nil && r.Clo != nil {
			e.closureHavoc(st, r.Clo)
		} else {
			e.havocAllKeepPrivate(st)
			st.taint["loop havoc all: call through an unresolved function value"] = true
		}
	}
}

func (e *Engine) loopBack(st *State, fr *Frame, b *ssa.BasicBlock, li *loopInfo, predIdx int) {
	ls := e.loopSpec(fr, li)
	e.bindPhis(st, fr, b, predIdx)
	if ri := e.rangeIndexInv(st, fr, b); ri != "" {
		e.emit(st, "inv-keep", fmt.Sprintf("inv-keep#%s.%d.range-index", fr.fn.Name(), li.ordinal), ri, "range loop index stays within -1 .. len-1")
	}
	if ls == nil {
		return
	}
	env := e.invEnv(st, fr, b)
	for i, inv := range ls.Invariants {
		label := inv.Label
		if label == "" {
			label = fmt.Sprint(i)
		}
		e.emit(st, "inv-keep", fmt.Sprintf("inv-keep#%s.%d.%s", fr.fn.Name(), li.ordinal, label), e.evalBool(env, inv), "loop invariant is preserved: "+inv.Text)
	}
	if ls.Decreases != nil {
		v := env.eval(ls.Decreases.Expr)
		old := fr.variant[b]
		e.emit(st, "decreases", fmt.Sprintf("decreases#%s.%d", fr.fn.Name(), li.ordinal), and(sx("<=", "0", old), sx("<", v.T, old)), "loop variant decreases and is bounded: "+ls.Decreases.Text)
	}
}

// checkFrame: heap components not named in the modifies clauses are unchanged
// on return (only when the contract has at least one modifies clause or is
// marked pure).
func (e *Engine) checkFrame(st *State, fr *Frame, c *Contract) {
	if !c.Pure && len(c.Modifies) == 0 {
		return
	}
	// allowed locations: havoc a copy of the entry state per the modifies
	// clauses, then require equality outside those locations, expressed as:
	// for every component, forall r: now[r] == entry[r] or r is a modified ref.
	entry := fr.entry
	env := e.envFor(st, fr)
	env = env.inState(entry)
	allowed := map[string][]string{} // component -> refs allowed to change ("*" = any)
	for _, m := range c.Modifies {
		for _, loc := range splitTop(m.Text, ',') {
			if strings.TrimSpace(loc) == "*" {
				return // anything may change: no frame obligation
			}
		}
	}
	for _, m := range c.Modifies {
		for _, loc := range splitTop(m.Text, ',') {
			loc = strings.TrimSpace(loc)
			if loc == "" || loc == "nothing" || strings.HasPrefix(loc, "ghost:") {
				continue
			}
			if strings.HasPrefix(loc, "mview(") && strings.HasSuffix(loc, ")") {
				cl, err := parseClause(loc[len("mview(") : len(loc)-1])
				if err != nil {
					panic(err.Error())
				}
				v := env.eval(cl.Expr)
				if mv, _, mh, _, ok := e.mviewComps(v.Ty); ok {
					allowed[mv] = append(allowed[mv], v.T)
					allowed[mh] = append(allowed[mh], v.T)
				}
				continue
			}
			if strings.HasSuffix(loc, "[*]") {
				cl, err := parseClause(strings.TrimSuffix(loc, "[*]"))
				if err != nil {
					panic(err.Error())
				}
				v := env.eval(cl.Expr)
				switch t := v.Ty.Underlying().(type) {
				case *types.Slice:
					cn, _ := e.elemComp(t.Elem())
					allowed[cn] = append(allowed[cn], sx("sl_reg", v.T))
				case *types.Map:
					mv, _, mh, _ := e.mapComps(t)
					ml, _ := e.mapLenComp()
					allowed[mv] = append(allowed[mv], v.T)
					allowed[mh] = append(allowed[mh], v.T)
					allowed[ml] = append(allowed[ml], v.T)
				}
				continue
			}
			cl, err := parseClause(loc)
			if err != nil {
				panic(err.Error())
			}
			a := env.addrOfExpr(cl.Expr)
			if a == nil {
				panic("modifies: cannot resolve " + loc)
			}
			switch a.Kind {
			case aHeap:
				si := e.structInfoOf(a.Base)
				if len(a.Path) == 0 {
					for i := range si.fields {
						cn, _ := e.fieldComp(si, i)
						allowed[cn] = append(allowed[cn], a.Ref)
					}
				} else {
					cn, _ := e.fieldComp(si, a.Path[0].Field)
					allowed[cn] = append(allowed[cn], a.Ref)
				}
			case aPtr:
				cn, _ := e.ptrComp(a.Base)
				allowed[cn] = append(allowed[cn], a.Ref)
			case aElem:
				cn, _ := e.elemComp(a.Base)
				allowed[cn] = append(allowed[cn], a.Ref)
			case aGlobal:
				allowed[quoteSym("G$"+a.Glob.Pkg.Pkg.Name()+"."+a.Glob.Name())] = []string{"*"}
			}
		}
	}
	if st.ghost["$epoch"] != entry.ghost["$epoch"] {
		e.emit(st, "frame", "frame#epoch", "false", "an unmodelled call may have modified the whole heap, but the contract has a modifies clause")
		return
	}
	for cn, now := range st.heap {
		if cn == "$alloc" || strings.HasPrefix(cn, "IT$") {
			continue
		}
		was, ok := entry.heap[cn]
		if !ok {
			was = quoteSym(strings.Trim(cn, "|") + "@" + entry.ghost["$epoch"])
		}
		if was == now {
			continue
		}
		srt := st.ghost["$sort:"+cn]
		if !strings.HasPrefix(srt, "(Array Int ") {
			if len(allowed[cn]) == 0 {
				e.emit(st, "frame", "frame#"+strings.Trim(cn, "|"), eq(now, was), "global "+cn+" is not in the modifies clause")
			}
			continue
		}
		r := e.freshName("frame.r")
		st2items := st.items
		st.declare(r, "Int")
		var outside []string
		// objects allocated during the call are not part of the frame
		outside = append(outside, sx("select", e.heapGet(entry, "$alloc", "(Array Int Bool)"), r))
		for _, a := range allowed[cn] {
			if a == "*" {
				outside = append(outside, "false")
			} else {
				outside = append(outside, not(eq(r, a)))
			}
		}
		e.emit(st, "frame", "frame#"+strings.Trim(cn, "|"), implies(and(outside...), eq(sx("select", now, r), sx("select", was, r))), "only locations in the modifies clause change in "+cn)
		st.items = st2items
	}
}
