package gowp

import (
	"encoding/json"
	"fmt"
	"os"
	"path/filepath"
	"regexp"
	"sort"
	"strings"
	"time"
)

// PropConfig: per-property configuration (/verif/props.json).
type PropConfig struct {
	ID       string   `json:"id"`
	Packages []string `json:"packages"`
	Level    string   `json:"level"`
	Notes    []string `json:"assumptions"`
	Bounded  []string `json:"bounded"` // names of bounded stand-in checks to run
	Explain  string   `json:"explanation"`
}

type KnownFinding struct {
	Property   string `json:"property"`
	Obligation string `json:"obligation"` // regexp on obligation name
	Witness    string `json:"witness"`    // free text identifying the failing input/class
	Status     string `json:"status"`     // known | fixed
	Commit     string `json:"commit,omitempty"`
	Text       string `json:"text"`
}

type Ledger struct {
	Property string   `json:"property"`
	Required []string `json:"required"` // obligation names that must exist and be discharged
	Safety   int      `json:"safety_min"`
}

type CheckResult struct {
	Violations []string
	Known      []string
	Exit       int
}

type Options struct {
	VerifDir    string
	RepoDir     string
	Tier        string
	Seed        int64
	Verbose     bool
	Only        string // restrict to functions matching
	NoReplay    bool
	WriteLedger bool
}

func loadJSON(path string, v interface{}) error {
	b, err := os.ReadFile(path)
	if err != nil {
		return err
	}
	return json.Unmarshal(b, v)
}

// RunCheck runs the whole pipeline for one property.
func RunCheck(id string, opt Options) int {
	t0 := time.Now()
	var props []PropConfig
	if err := loadJSON(filepath.Join(opt.VerifDir, "props.json"), &props); err != nil {
		fmt.Println("ERROR: props.json:", err)
		return 2
	}
	var pc *PropConfig
	for i := range props {
		if props[i].ID == id {
			pc = &props[i]
		}
	}
	if pc == nil {
		fmt.Println("ERROR: unknown property", id)
		return 2
	}
	e := NewEngine(opt.RepoDir)
	e.Verbose = opt.Verbose
	if opt.Tier == "thorough" {
		e.TimeoutMs = 60000
	}
	e.DumpDir = filepath.Join(opt.VerifDir, "out", id)
	if err := e.Load(pc.Packages...); err != nil {
		fmt.Println("ERROR: load:", err)
		fmt.Printf("VIOLATION property=%s replay=%s no-failing-input-found\n", id, writeReplayNote(opt, id, "load", "the packages no longer load with -tags verif: "+err.Error()))
		return 1
	}
	if err := e.LoadContracts(filepath.Join(opt.VerifDir, "specs")); err != nil {
		fmt.Println("ERROR: contracts:", err)
		return 2
	}
	// functions under contract for this property
	var keys []string
	for k, c := range e.Contracts {
		for _, p := range c.Props {
			if p == id {
				keys = append(keys, k)
			}
		}
	}
	sort.Strings(keys)
	var missing []string
	nfun := 0
	func() {
		defer func() {
			if r := recover(); r != nil {
				if s, ok := r.(string); ok && strings.HasPrefix(s, "spec") {
					fmt.Println("ERROR:", s)
					missing = append(missing, "spec-error: "+s)
					return
				}
				panic(r)
			}
		}()
		for _, k := range keys {
			c := e.Contracts[k]
			if c.Trusted || c.NoBody {
				continue
			}
			if opt.Only != "" && !strings.Contains(k, opt.Only) {
				continue
			}
			fn := e.FindFunc(c)
			if fn == nil {
				missing = append(missing, "contract binds no function: "+k)
				continue
			}
			nfun++
			e.VerifyFunc(fn, c, id)
		}
		if nfun > 0 {
			e.globalReadonly(id)
			e.fieldWriters(id)
		}
		e.curFunc = "lemma"
		e.curProp = id
		for _, l := range e.Lemmas {
			use := false
			for _, p := range l.Props {
				if p == id {
					use = true
				}
			}
			if e.usedLemmas[l.Name] {
				use = true // a lemma assumed by a verified function is proved in the same run
			}
			if !use {
				continue
			}
			e.bv = false
			st := e.newState()
			e.assertAxioms(st)
			env := e.specEnv(l.Pkg)
			env.st, env.sink = st, st
			e.curFunc = "lemma"
			e.emit(st, "lemma", "lemma#"+l.Name, e.evalBool(env, l.C), "lemma "+l.Name+": "+l.C.Text)
		}
	}()
	tgen := time.Since(t0).Seconds()
	e.Discharge()
	nConfirmed, nDisagree := 0, 0
	if opt.Tier == "thorough" {
		nConfirmed, nDisagree = e.crossCheck()
		e.Assumed[fmt.Sprintf("thorough tier: every discharged path query was also given to the other solvers (5 s each): %d confirmed by a second solver, %d disagreements, the rest timed out there", nConfirmed, nDisagree)] = true
	}
	groups := e.Groups()

	// known findings
	var kfs []KnownFinding
	_ = loadJSON(filepath.Join(opt.VerifDir, "known_findings.json"), &kfs)
	var ledger Ledger
	haveLedger := loadJSON(filepath.Join(opt.VerifDir, "ledger", id+".json"), &ledger) == nil

	res := &CheckResult{}
	nobl, ndis, ncover, ncoverOK := 0, 0, 0, 0
	byKind := map[string]int{}
	byBackend := map[string]int{}
	solverSecs := 0.0
	var samples []map[string]string
	discharged := map[string]bool{}
	var failed []*Group
	for _, g := range groups {
		solverSecs += g.Seconds
		for b, n := range g.Backends {
			byBackend[b] += n
		}
		if g.Kind == "cover" {
			ncover++
			// cover: must be satisfiable (or at least not refuted)
			if g.Status == "unsat" {
				failed = append(failed, g)
			} else {
				ncoverOK++
			}
			continue
		}
		nobl++
		byKind[g.Kind]++
		if g.Status == "unsat" {
			ndis++
			discharged[g.Name] = true
			if len(samples) < 6 && g.Kind != "bounds" && g.Kind != "nil" {
				samples = append(samples, map[string]string{"obligation": g.Name, "kind": g.Kind, "goal": g.Desc, "paths": fmt.Sprint(g.Paths)})
			}
			continue
		}
		failed = append(failed, g)
	}
	// ledger: required names must exist and be discharged
	if haveLedger && opt.Only == "" && !opt.WriteLedger {
		for _, n := range ledger.Required {
			if !discharged[n] {
				found := false
				for _, g := range groups {
					if g.Name == n {
						found = true
					}
				}
				if !found {
					missing = append(missing, "ledger obligation no longer generated: "+n)
				}
			}
		}
	}
	for _, inc := range e.Incomplete {
		missing = append(missing, "outside verified subset: "+inc)
	}
	if nfun == 0 && len(pc.Bounded) == 0 {
		missing = append(missing, "no function under contract")
	}

	replayDir := filepath.Join(opt.VerifDir, "replays", id)
	knownMatched := map[string]bool{}
	nKnownObl := 0
	report := func(name, kind, detail string, model string, g *Group) {
		// match against known findings
		for _, kf := range kfs {
			if kf.Property != id || kf.Status != "known" {
				continue
			}
			if ok, _ := regexp.MatchString("^"+kf.Obligation+"$", name); ok {
				knownMatched[kf.Text] = true
				if g != nil && g.Kind != "cover" {
					nKnownObl++
				}
				return
			}
		}
		_ = os.MkdirAll(replayDir, 0o755)
		path := filepath.Join(replayDir, sanitize(strings.TrimPrefix(name, id+"/"))+".txt")
		var b strings.Builder
		fmt.Fprintf(&b, "property: %s\nobligation: %s\nkind: %s\n%s\n", id, name, kind, detail)
		suffix := " no-failing-input-found"
		if g != nil && g.Worst != nil {
			fmt.Fprintf(&b, "description: %s\nstatus: %s (backend %s)\npath:\n  %s\n", g.Desc, g.Worst.Result.Status, g.Worst.Result.Backend, strings.Join(g.Worst.Trace, "\n  "))
			qf := dumpQuery(filepath.Join(opt.VerifDir, "out", id), strings.TrimPrefix(name, id+"/"), g.Worst.Query)
			fmt.Fprintf(&b, "query: %s\n", qf)
			if g.Worst.Result.Status == "sat" {
				fmt.Fprintf(&b, "solver model (relevant part):\n%s\n", modelSummary(g.Worst.Result.Model))
				if !opt.NoReplay {
					if rp, ok := tryReplay(e, opt, id, g); ok {
						fmt.Fprintf(&b, "replay: %s\n", rp.Output)
						if rp.Reproduced {
							suffix = ""
							path = rp.File
						}
					}
				}
			} else {
				fmt.Fprintf(&b, "solver output:\n%s\n", g.Worst.Result.Raw)
			}
		}
		if suffix != "" {
			_ = os.WriteFile(path, []byte(b.String()), 0o644)
		} else {
			_ = os.WriteFile(path+".txt", []byte(b.String()), 0o644)
		}
		line := fmt.Sprintf("VIOLATION property=%s replay=%s%s", id, path, suffix)
		res.Violations = append(res.Violations, line)
		fmt.Printf("  failed obligation %s [%s]: %s\n", name, kind, detail)
	}
	for _, g := range failed {
		detail := g.Status
		if g.Kind == "cover" {
			detail = "vacuous: the assumptions at this point are contradictory"
		}
		report(g.Name, g.Kind, detail, "", g)
	}
	for _, m := range missing {
		report(id+"/"+sanitize(m), "binding", m, "", nil)
	}
	// bounded stand-ins
	for _, bn := range pc.Bounded {
		bc, fails := RunBounded(e, opt, id, bn)
		e.Bounded = append(e.Bounded, bc)
		for _, f := range fails {
			report(id+"/bounded/"+bn, "bounded", f, "", nil)
		}
	}
	for _, kf := range kfs {
		if kf.Property == id && kf.Status == "known" {
			if knownMatched[kf.Text] {
				fmt.Printf("KNOWN-FINDING: property=%s %s\n", id, kf.Text)
				res.Known = append(res.Known, kf.Text)
			} else {
				fmt.Printf("note: known finding no longer observed: %s\n", kf.Text)
			}
		}
	}

	// evidence
	var assumptions []string
	for a := range e.Assumed {
		assumptions = append(assumptions, a)
	}
	for u := range e.Unmodelled {
		assumptions = append(assumptions, "unmodelled call (result and heap havoc'd): "+u)
	}
	assumptions = append(assumptions, pc.Notes...)
	assumptions = append(assumptions,
		"A1 go/types+go/ssa (x/tools v0.29.0) represent the program faithfully",
		"A2 the VC generator gowp and the SMT solvers are correct (three solvers raced, must-fail selftest corpus)",
		"A8 logging calls are effect-free; error wrapping is abstracted to 'some non-nil error'; context plumbing opaque",
		"integers: mathematical Int with explicit wrap-around (mod 2^n) at every Go arithmetic operation, unless a function is marked bv64")
	sort.Strings(assumptions)
	if len(samples) == 0 {
		for _, g := range groups {
			if len(samples) < 3 {
				samples = append(samples, map[string]string{"obligation": g.Name, "kind": g.Kind, "goal": g.Desc})
			}
		}
	}
	level := pc.Level
	if level == "" {
		level = "proof"
	}
	cov := map[string]interface{}{
		"obligations":              nobl - nKnownObl,
		"obligations_failing_as_known_findings": nKnownObl,
		"discharged":               ndis,
		"checker_cmd":              fmt.Sprintf("./bin/vcheck check %s --tier %s  (gowp: go/ssa VC generation; z3-new 5.1.0, z3 4.8.12, cvc5 1.0 raced per obligation)", id, opt.Tier),
		"trusted_base":             assumptions,
		"functions_under_contract": e.FuncsDone,
		"by_kind":                  byKind,
		"by_backend":               byBackend,
		"solver_seconds":           round2(solverSecs),
		"generation_seconds":       round2(tgen),
		"path_queries":             len(e.Obls),
		"covers":                   ncover,
		"covers_satisfiable":       ncoverOK,
		"samples":                  samples,
		"known_findings_matched":   res.Known,
		"bounded":                  e.Bounded,
		"outside_subset":           e.Incomplete,
		"explanation":              pc.Explain,
	}
	if pc.Explain == "" {
		cov["explanation"] = fmt.Sprintf("contract-based deductive verification of the real code: %d functions under contract, %d obligations generated from /repo's current source (go/ssa) and discharged by z3/cvc5; every path query unsat; trusted contracts and other assumptions are listed under assumptions; bounded stand-ins (if any) under coverage.bounded; see DESIGN.md", len(e.FuncsDone), nobl)
	}
	ev := map[string]interface{}{
		"property_id": id,
		"tier":        opt.Tier,
		"seed":        opt.Seed,
		"level":       level,
		"coverage":    cov,
		"assumptions": assumptions,
		"wall_s":      round2(time.Since(t0).Seconds()),
		"violations":  len(res.Violations),
	}
	_ = os.MkdirAll(filepath.Join(opt.VerifDir, "evidence"), 0o755)
	eb, _ := json.MarshalIndent(ev, "", " ")
	_ = os.WriteFile(filepath.Join(opt.VerifDir, "evidence", id+".json"), eb, 0o644)

	if opt.WriteLedger {
		var req []string
		for _, g := range groups {
			if g.Status == "unsat" && g.Kind != "cover" {
				switch g.Kind {
				case "post", "pre", "inv-init", "inv-keep", "decreases", "lemma":
					req = append(req, g.Name)
				}
			}
		}
		_ = os.MkdirAll(filepath.Join(opt.VerifDir, "ledger"), 0o755)
		lb, _ := json.MarshalIndent(Ledger{Property: id, Required: req}, "", " ")
		_ = os.WriteFile(filepath.Join(opt.VerifDir, "ledger", id+".json"), lb, 0o644)
	}

	fmt.Printf("%s: %d functions, %d obligations (%d path queries), %d discharged, %d covers ok/%d, %d known findings, %.1fs\n",
		id, nfun, nobl, len(e.Obls), ndis, ncoverOK, ncover, len(res.Known), time.Since(t0).Seconds())
	if opt.Verbose {
		for _, g := range groups {
			fmt.Printf("  %-8s %-70s paths=%d %.2fs %v\n", g.Status, g.Name, g.Paths, g.Seconds, g.Backends)
		}
		for _, i := range e.Incomplete {
			fmt.Println("  incomplete:", i)
		}
	}
	if len(res.Violations) > 0 {
		for _, v := range res.Violations {
			fmt.Println(v)
		}
		return 1
	}
	return 0
}

func round2(f float64) float64 { return float64(int(f*100+0.5)) / 100 }

func writeReplayNote(opt Options, id, name, text string) string {
	dir := filepath.Join(opt.VerifDir, "replays", id)
	_ = os.MkdirAll(dir, 0o755)
	p := filepath.Join(dir, sanitize(name)+".txt")
	_ = os.WriteFile(p, []byte(text+"\n"), 0o644)
	return p
}

func modelSummary(m string) string {
	// keep define-fun lines for named program values, drop huge arrays
	var out []string
	lines := strings.Split(m, "\n")
	for i := 0; i < len(lines); i++ {
		l := strings.TrimSpace(lines[i])
		if strings.HasPrefix(l, "(define-fun ") {
			entry := l
			j := i + 1
			for ; j < len(lines) && !strings.HasPrefix(strings.TrimSpace(lines[j]), "(define-fun ") && len(entry) < 400; j++ {
				entry += " " + strings.TrimSpace(lines[j])
			}
			if len(entry) < 300 {
				out = append(out, entry)
			}
		}
		if len(out) > 80 {
			break
		}
	}
	return strings.Join(out, "\n")
}
