package gowp

import (
	"fmt"
	"go/token"
	"go/types"
	"os"
	"sort"
	"strings"
	"sync"
	"time"

	"golang.org/x/tools/go/packages"
	"golang.org/x/tools/go/ssa"
	"golang.org/x/tools/go/ssa/ssautil"
)

type unsupported struct{ msg string }

func (u unsupported) Error() string { return "unsupported: " + u.msg }

// Engine holds one loaded program and everything generated from it.
type Engine struct {
	RepoDir string
	Prog    *ssa.Program
	Pkgs    []*packages.Package
	SSAPkgs map[string]*ssa.Package // by import path
	Fset    *token.FileSet

	bv bool // current integer mode (per function under verification)

	decls        []string
	declared     map[string]bool
	structs      map[string]*structInfo
	structBySort map[string]*structInfo
	typeIDs      map[string]int
	fresh        int

	Contracts map[string]*Contract // key: pkgpath + "." + RelString
	SpecFuncs map[string]*SpecFunc
	Axioms    []*Lemma
	Lemmas    []*Lemma
	Schemas   map[string]string
	Globals   []*GlobalSpec
	Writers   []*WritersSpec
	Ghosts    []*GhostSpec

	Obls       []*Obligation
	oblMu      sync.Mutex
	Incomplete []string // unsupported constructs hit, "func: reason"
	Unmodelled map[string]bool
	Assumed    map[string]bool
	FuncsDone  []string
	Bounded    []BoundedCheck

	TimeoutMs int
	DumpDir   string
	Verbose   bool
	curFunc   string
	curProp   string
	siteOrd   map[string]int
	pathCount int
	PathLimit int
	quiet     int // >0: suppress obligations (spec-evaluation of pure callees)
	loopCache map[*ssa.Function]map[*ssa.BasicBlock]*loopInfo
	specSt    *State
	curReplay *replayInfo
	errSites  map[string]string
	lockIDs   map[string]int
	callsiteHit map[string]bool
	recDefs   map[string]string // declare-fun line -> define-fun-rec line of recursive spec functions
	recInfo   []recFun
	inlineCount int
	usedLemmas  map[string]bool
	rawIface    bool
	modsCallee  *ssa.Function
	curContract *Contract
	globalFuncs map[*ssa.Global]*ssa.Function
	allRefs   map[string]bool
	refDeps   map[string][]string
	privTypes map[string]types.Type
	compFields map[string]compFieldInfo
	immutCache map[string]bool
	allFuncs   map[*ssa.Function]bool
	ifacePreds map[string]types.Type
	boxedTypes map[string]types.Type
}

type BoundedCheck struct {
	Function string `json:"function"`
	Bound    string `json:"bound"`
	Cases    int    `json:"cases"`
	Failed   int    `json:"failed"`
}

// Obligation is one verification condition.
type Obligation struct {
	Name   string
	Kind   string
	Func   string
	Desc   string
	Goal   string
	items  *item
	nprel  int
	Query  string
	Result SolverResult
	Trace  []string
	Pos    string
	replay *replayInfo
}

func NewEngine(repo string) *Engine {
	for _, f := range hofInit {
		f()
	}
	hofInit = nil
	return &Engine{
		RepoDir:      repo,
		declared:     map[string]bool{},
		structs:      map[string]*structInfo{},
		structBySort: map[string]*structInfo{},
		typeIDs:      map[string]int{},
		Contracts:    map[string]*Contract{},
		SpecFuncs:    map[string]*SpecFunc{},
		Schemas:      map[string]string{},
		Unmodelled:   map[string]bool{},
		Assumed:      map[string]bool{},
		SSAPkgs:      map[string]*ssa.Package{},
		TimeoutMs:    10000,
		PathLimit:    4000,
		siteOrd:      map[string]int{},
		usedLemmas:   map[string]bool{},
	}
}

const modPath = "github.com/spikeekips/mitum"

// Load type-checks the given package patterns (relative to the repo, e.g.
// "./base") with build tag verif and builds SSA for them.
func (e *Engine) Load(patterns ...string) error {
	t0 := time.Now()
	cfg := &packages.Config{
		Mode:       packages.LoadSyntax,
		Dir:        e.RepoDir,
		BuildFlags: []string{"-tags=verif"},
		Env:        append(envBase(), "GOFLAGS=-mod=mod", "GOPROXY=off", "GOSUMDB=off", "GOTOOLCHAIN=local"),
	}
	pkgs, err := packages.Load(cfg, patterns...)
	if err != nil {
		return err
	}
	var errs []string
	for _, p := range pkgs {
		for _, pe := range p.Errors {
			errs = append(errs, pe.Error())
		}
	}
	if len(errs) > 0 {
		return fmt.Errorf("package errors: %s", strings.Join(errs, "; "))
	}
	e.Pkgs = pkgs
	prog, spkgs := ssautil.Packages(pkgs, ssa.InstantiateGenerics|ssa.GlobalDebug)
	prog.Build()
	e.Prog = prog
	for i, sp := range spkgs {
		if sp != nil {
			e.SSAPkgs[pkgs[i].PkgPath] = sp
		}
	}
	if len(pkgs) > 0 {
		e.Fset = pkgs[0].Fset
	}
	if e.Verbose {
		fmt.Printf("loaded %d packages in %.1fs\n", len(pkgs), time.Since(t0).Seconds())
	}
	return nil
}

func (e *Engine) addDecl(d string) {
	e.decls = append(e.decls, d)
}

func (e *Engine) declOnce(key, d string) {
	if e.declared[key] {
		return
	}
	e.declared[key] = true
	e.addDecl(d)
}

func (e *Engine) freshName(hint string) string {
	e.fresh++
	return quoteSym(fmt.Sprintf("%s!%d", hint, e.fresh))
}

func (e *Engine) typeID(t types.Type) int {
	k := typeKey(t)
	if id, ok := e.typeIDs[k]; ok {
		return id
	}
	id := len(e.typeIDs) + 1
	e.typeIDs[k] = id
	return id
}

// ---- path state ----------------------------------------------------------

const (
	kDef = iota
	kAssume
	kBranch
)

type item struct {
	prev *item
	cmd  string
	kind int // definition, assumption, or branch condition
	n    int
}

func (it *item) list() []string {
	var out []string
	for p := it; p != nil; p = p.prev {
		out = append(out, p.cmd)
	}
	for i, j := 0, len(out)-1; i < j; i, j = i+1, j-1 {
		out[i], out[j] = out[j], out[i]
	}
	return out
}

type Cell struct {
	id   int
	ty   types.Type
	name string
}

type State struct {
	items  *item
	heap   map[string]string
	cells  map[*Cell]string
	frames []*Frame
	trace  []string
	taint  map[string]bool
	ghost  map[string]string

	cloCells map[*Cell]*Val // closures stored in local cells (engine-level)
	priv     map[string]bool // fresh references still private to the verified function (private.go)
	privClean map[string]bool // private cells whose content came from outside (holds no private reference)
	stable    map[string]bool // cells of captured variables that are never re-assigned (stablecell.go); set once at entry
}

func (st *State) clone() *State {
	n := &State{items: st.items, heap: make(map[string]string, len(st.heap)), cells: make(map[*Cell]string, len(st.cells)),
		taint: map[string]bool{}, ghost: map[string]string{}}
	for k, v := range st.heap {
		n.heap[k] = v
	}
	for k, v := range st.cells {
		n.cells[k] = v
	}
	for k, v := range st.taint {
		n.taint[k] = v
	}
	for k, v := range st.ghost {
		n.ghost[k] = v
	}
	n.trace = append([]string(nil), st.trace...)
	n.stable = st.stable
	if st.priv != nil {
		n.priv = make(map[string]bool, len(st.priv))
		for k := range st.priv {
			n.priv[k] = true
		}
	}
	if st.privClean != nil {
		n.privClean = make(map[string]bool, len(st.privClean))
		for k, v := range st.privClean {
			n.privClean[k] = v
		}
	}
	if st.cloCells != nil {
		n.cloCells = map[*Cell]*Val{}
		for k, v := range st.cloCells {
			n.cloCells[k] = v
		}
	}
	for _, f := range st.frames {
		n.frames = append(n.frames, f.clone())
	}
	return n
}

// snapshot copies only the memory part (for old()/pre()).
func (st *State) snapshot() *State {
	n := &State{items: st.items, heap: make(map[string]string, len(st.heap)), cells: make(map[*Cell]string, len(st.cells)), ghost: map[string]string{}}
	for k, v := range st.heap {
		n.heap[k] = v
	}
	for k, v := range st.cells {
		n.cells[k] = v
	}
	for k, v := range st.ghost {
		n.ghost[k] = v
	}
	n.cloCells = st.cloCells
	return n
}

func (st *State) top() *Frame { return st.frames[len(st.frames)-1] }

func (st *State) push(cmd string, kind int) {
	n := 1
	if st.items != nil {
		n = st.items.n + 1
	}
	st.items = &item{prev: st.items, cmd: cmd, kind: kind, n: n}
}

func (st *State) assume(f string) {
	if f == "true" || f == "" {
		return
	}
	st.push("(assert "+f+")", kAssume)
}

func (st *State) branch(f string) {
	st.push("(assert "+f+")", kBranch)
}

func (st *State) define(f string) {
	st.push("(assert "+f+")", kDef)
}

func (st *State) declare(name, sort string) {
	st.push(fmt.Sprintf("(declare-const %s %s)", name, sort), kDef)
}

// ---- obligations ---------------------------------------------------------

func (e *Engine) emit(st *State, kind, site, goal, desc string) {
	if e.quiet > 0 {
		return
	}
	if goal == "true" {
		goal = "true"
	}
	name := fmt.Sprintf("%s/%s/%s", e.curProp, e.curFunc, site)
	o := &Obligation{Name: name, Kind: kind, Func: e.curFunc, Desc: desc, Goal: goal, items: st.items, nprel: -1}
	o.Trace = append([]string(nil), st.trace...)
	o.replay = e.curReplay
	e.Obls = append(e.Obls, o)
}

func (e *Engine) buildQuery(o *Obligation) string {
	var b strings.Builder
	b.WriteString("; obligation " + o.Name + "\n; " + strings.ReplaceAll(o.Desc, "\n", " ") + "\n")
	for _, d := range e.decls {
		b.WriteString(d)
		b.WriteByte('\n')
	}
	for _, c := range o.items.list() {
		b.WriteString(c)
		b.WriteByte('\n')
	}
	b.WriteString("(assert (not " + o.Goal + "))\n(check-sat)\n(get-model)\n")
	return b.String()
}

// Discharge solves all pending obligations in parallel.
func (e *Engine) Discharge() {
	var wg sync.WaitGroup
	var mu sync.Mutex
	failed := map[string]int{} // per obligation name: paths that did not discharge
	queue := make(chan *Obligation, len(e.Obls))
	for _, o := range e.Obls {
		if o.Result.Status != "" {
			continue
		}
		if o.Goal == "true" {
			o.Result = SolverResult{Status: "unsat", Backend: "trivial"}
			continue
		}
		queue <- o
	}
	close(queue)
	for w := 0; w < 16; w++ {
		wg.Add(1)
		go func() {
			defer wg.Done()
			for o := range queue {
				mu.Lock()
				nf := failed[o.Name]
				mu.Unlock()
				if nf >= 3 {
					// the obligation has already failed on three paths:
					// do not burn solver time on its remaining paths
					o.Query = e.buildQuery(o)
					o.Result = SolverResult{Status: "unknown", Backend: "skipped", Raw: "skipped: this obligation already failed on 3 other paths"}
					continue
				}
				o.Query = e.buildQuery(o)
				to := e.TimeoutMs
				if o.Kind == "cover" {
					to = 2000 // a cover only has to be not refuted
				}
				o.Result = Solve(o.Query, to, "")
				if os.Getenv("VERIF_DUMPALL") != "" && e.DumpDir != "" {
					dumpQuery(e.DumpDir+"/all", fmt.Sprintf("%s.%p", strings.TrimPrefix(o.Name, e.curProp+"/"), o), o.Query)
				}
				if o.Result.Status != "unsat" && o.Kind != "cover" {
					mu.Lock()
					failed[o.Name]++
					mu.Unlock()
				}
			}
		}()
	}
	wg.Wait()
	e.retryUnknown()
}

// retryUnknown: a timeout is not a refutation. Obligations that came back
// unknown (a loaded machine, an unlucky solver run) are solved once more,
// few at a time and with a much larger budget, before anything is reported;
// obligations with a definite counterexample on some path are left alone.
func (e *Engine) retryUnknown() {
	hasSat := map[string]bool{}
	for _, o := range e.Obls {
		if o.Result.Status == "sat" && o.Kind != "cover" {
			hasSat[o.Name] = true
		}
	}
	var todo []*Obligation
	for _, o := range e.Obls {
		if o.Kind != "cover" && o.Result.Status == "unknown" && !hasSat[o.Name] && o.Query != "" {
			todo = append(todo, o)
		}
	}
	if len(todo) == 0 {
		return
	}
	var mu sync.Mutex
	stillFailed := map[string]int{}
	queue := make(chan *Obligation, len(todo))
	for _, o := range todo {
		queue <- o
	}
	close(queue)
	var wg sync.WaitGroup
	for w := 0; w < 4; w++ {
		wg.Add(1)
		go func() {
			defer wg.Done()
			for o := range queue {
				mu.Lock()
				nf := stillFailed[o.Name]
				mu.Unlock()
				if nf >= 2 {
					continue
				}
				first := o.Result.Seconds
				r := Solve(o.Query, e.TimeoutMs*6, "")
				r.Seconds += first
				if r.Status == "unknown" && o.Result.Backend == "skipped" {
					r.Backend = "all"
				}
				o.Result = r
				if r.Status != "unsat" {
					mu.Lock()
					stillFailed[o.Name]++
					mu.Unlock()
				}
			}
		}()
	}
	wg.Wait()
}

// Groups merges per-path obligations that share a name.
type Group struct {
	Name     string
	Kind     string
	Func     string
	Desc     string
	Paths    int
	Status   string // unsat | sat | unknown
	Backends map[string]int
	Seconds  float64
	Worst    *Obligation
}

func (e *Engine) Groups() []*Group {
	m := map[string]*Group{}
	var order []string
	for _, o := range e.Obls {
		g, ok := m[o.Name]
		if !ok {
			g = &Group{Name: o.Name, Kind: o.Kind, Func: o.Func, Desc: o.Desc, Status: "unsat", Backends: map[string]int{}}
			m[o.Name] = g
			order = append(order, o.Name)
		}
		g.Paths++
		g.Seconds += o.Result.Seconds
		g.Backends[o.Result.Backend]++
		switch o.Result.Status {
		case "sat":
			if g.Status != "sat" {
				g.Status = "sat"
				g.Worst = o
			}
		case "unknown":
			if g.Status == "unsat" {
				g.Status = "unknown"
				g.Worst = o
			}
		}
	}
	sort.Strings(order)
	var out []*Group
	for _, n := range order {
		out = append(out, m[n])
	}
	return out
}

func envBase() []string { return os.Environ() }
