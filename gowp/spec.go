package gowp

import (
	"fmt"
	"go/ast"
	"go/constant"
	"go/token"
	"go/types"
	"strconv"
	"strings"

	"golang.org/x/tools/go/ssa"
)

// Env is the evaluation context of a specification expression.
type Env struct {
	e       *Engine
	st      *State // memory state expressions are evaluated in
	sink    *State // live path state that receives definitions
	old     *State // for old()
	pre     *State // for pre() (loop entry)
	fr      *Frame
	names   map[string]*Val // explicit bindings (params of a callee, results, bound variables)
	inOld   bool            // inside old(): a parameter names its entry value
	useVars bool            // resolve source variables through DebugRef tracking (loop invariants)
	pkg     *types.Package
	callArg bool // names shadow everything (callee contract evaluated at a call site)
	closed  bool // the result must be a closed term over bound variables (spec func body, quantifier body)
	localsOK bool // local variables (latest tracked value) may be named (helper clauses labelled local-...)
	tparams  map[string]types.Type // type parameter name -> type argument (contracts of generic functions)
	assuming bool                  // the clause is being assumed (not checked): private(x) registers
	bound    map[string]bool       // names bound by an enclosing quantifier
}

var (
	tInt    = types.Typ[types.Int]
	tBool   = types.Typ[types.Bool]
	tString = types.Typ[types.String]
	tUInt   = types.Typ[types.UntypedInt]
)

func (e *Engine) envFor(st *State, fr *Frame) *Env {
	env := &Env{e: e, st: st, sink: st, old: fr.entry, fr: fr, names: map[string]*Val{}}
	if fr.fn.Pkg != nil {
		env.pkg = fr.fn.Pkg.Pkg
	} else if o := fr.fn.Origin(); o != nil && o.Pkg != nil {
		env.pkg = o.Pkg.Pkg
	}
	for k, v := range fr.params {
		env.names[k] = v
	}
	return env
}

func (env *Env) with(name string, v *Val) *Env {
	n := *env
	n.names = make(map[string]*Val, len(env.names)+1)
	for k, x := range env.names {
		n.names[k] = x
	}
	n.names[name] = v
	return &n
}

func (env *Env) inState(st *State) *Env {
	n := *env
	n.st = st
	return &n
}

func (env *Env) bindResults(fn *ssa.Function, rets []*Val) {
	res := fn.Signature.Results()
	for i, r := range rets {
		env.names[fmt.Sprintf("r%d", i)] = r
		if i < res.Len() && res.At(i).Name() != "" && res.At(i).Name() != "_" {
			env.names[res.At(i).Name()] = r
		}
	}
	if len(rets) == 1 {
		env.names["result"] = rets[0]
	}
}

func (e *Engine) evalBool(env *Env, c *Clause) string {
	v := env.eval(c.Expr)
	if v.Ty != nil && !isBool(v.Ty) {
		panic(fmt.Sprintf("spec clause %q is not boolean (%v)", c.Text, v.Ty))
	}
	return v.T
}

func specErr(format string, args ...interface{}) {
	panic(fmt.Sprintf("spec error: "+format, args...))
}

func (env *Env) eval(x ast.Expr) *Val {
	e := env.e
	switch n := x.(type) {
	case *ast.ParenExpr:
		return env.eval(n.X)
	case *ast.BasicLit:
		switch n.Kind {
		case token.INT:
			return &Val{T: n.Value, Ty: tUInt}
		case token.STRING:
			s, _ := strconv.Unquote(n.Value)
			return &Val{T: smtString(s), Ty: tString}
		case token.FLOAT:
			f, _ := strconv.ParseFloat(n.Value, 64)
			return &Val{T: fpConst(f), Ty: types.Typ[types.Float64]}
		}
	case *ast.Ident:
		return env.ident(n.Name)
	case *ast.UnaryExpr:
		v := env.eval(n.X)
		switch n.Op {
		case token.NOT:
			return &Val{T: not(v.T), Ty: tBool}
		case token.SUB:
			if isFloat(v.Ty) {
				return &Val{T: sx("fp.neg", v.T), Ty: v.Ty}
			}
			if e.bv && v.Ty != tUInt {
				return &Val{T: sx("bvneg", v.T), Ty: v.Ty}
			}
			return &Val{T: sx("-", v.T), Ty: v.Ty}
		case token.AND:
			return v
		}
	case *ast.StarExpr:
		v := env.eval(n.X)
		a := e.addrOf(v)
		pt := v.Ty.Underlying().(*types.Pointer)
		return &Val{T: e.load(env.st, a), Ty: pt.Elem()}
	case *ast.BinaryExpr:
		return env.binary(n)
	case *ast.CallExpr:
		return env.call(n)
	case *ast.SelectorExpr:
		return env.selector(n)
	case *ast.IndexExpr:
		b := env.eval(n.X)
		i := env.eval(n.Index)
		return env.index(b, i)
	}
	specErr("unsupported expression %T", x)
	return nil
}

func (env *Env) index(b, i *Val) *Val {
	e := env.e
	switch bt := b.Ty.Underlying().(type) {
	case *types.Slice:
		c, s := e.elemComp(bt.Elem())
		h := e.heapGet(env.st, c, s)
		idx := env.coerceInt(i, tInt)
		return &Val{T: sx("select", sx("select", h, sx("sl_reg", b.T)), e.at(sx("sl_off", b.T), idx)), Ty: bt.Elem()}
	case *types.Map:
		// Go semantics: the zero value for a missing key (and for a nil map)
		k := env.coerce(i, bt.Key())
		mv, mvs, mh, mhs := e.mapComps(bt)
		has := and(not(eq(b.T, "0")), sx("select", sx("select", e.heapGet(env.st, mh, mhs), b.T), k))
		return &Val{T: ite(has, sx("select", sx("select", e.heapGet(env.st, mv, mvs), b.T), k), e.zeroOf(bt.Elem())), Ty: bt.Elem()}
	case *types.Array:
		return &Val{T: sx("select", b.T, env.coerceInt(i, tInt)), Ty: bt.Elem()}
	case *types.Basic:
		if isString(b.Ty) {
			return &Val{T: sx("str.to_code", sx("str.at", b.T, i.T)), Ty: types.Typ[types.Uint8]}
		}
	case *types.Pointer:
		if at, ok := bt.Elem().Underlying().(*types.Array); ok {
			c, s := e.elemComp(at.Elem())
			h := e.heapGet(env.st, c, s)
			return &Val{T: sx("select", sx("select", h, b.T), i.T), Ty: at.Elem()}
		}
	}
	specErr("cannot index %v", b.Ty)
	return nil
}

func (env *Env) ident(name string) *Val {
	e := env.e
	switch name {
	case "true":
		return &Val{T: "true", Ty: tBool}
	case "false":
		return &Val{T: "false", Ty: tBool}
	case "nil":
		return &Val{T: "0", Ty: types.Typ[types.UntypedNil]}
	}
	if v, ok := env.names[name]; ok && (env.callArg || env.bound[name]) {
		return env.materialize(v)
	}
	if env.useVars && env.fr != nil {
		if v, ok := env.fr.vars[name]; ok {
			if pv, isParam := env.names[name]; isParam && env.inOld && pv.T != "addr" && pv.Ty != nil && v.Ty != nil {
				if v.T != "addr" && types.Identical(pv.Ty, v.Ty) {
					return env.materialize(pv)
				}
				// a parameter that lives in a cell allocated by this function
				// (captured by a closure): the cell does not exist in the entry
				// state, the entry value is the parameter itself
				if v.T == "addr" {
					if pt, ok := v.Ty.Underlying().(*types.Pointer); ok && types.Identical(pt.Elem(), pv.Ty) {
						return env.materialize(pv)
					}
				}
			}
			return env.materialize(v)
		}
	}
	if v, ok := env.names[name]; ok {
		return env.materialize(v)
	}
	if env.fr != nil {
		if v, ok := env.fr.vars[name]; ok && (env.useVars || env.localsOK) {
			return env.materialize(v)
		}
	}
	if e.ghostSpec(name) != nil {
		return e.ghostGet(env.st, name)
	}
	// package scope
	if env.pkg != nil {
		if obj := env.pkg.Scope().Lookup(name); obj != nil {
			return env.object(obj)
		}
	}
	if obj := types.Universe.Lookup(name); obj != nil {
		if c, ok := obj.(*types.Const); ok {
			return constToVal(e, c)
		}
	}
	specErr("unknown identifier %q", name)
	return nil
}

func (env *Env) materialize(v *Val) *Val {
	if v.Addr != nil && v.T == "addr" {
		// tracked variable that lives in memory
		a := v.Addr
		var ty types.Type
		switch a.Kind {
		case aCell:
			ty = env.e.typeAfter(a.Cell.ty, a.Path)
		default:
			ty = env.e.typeAfter(a.Base, a.Path)
		}
		if a.Kind == aCell && len(a.Path) == 0 && env.st.cloCells != nil {
			if cv, ok := env.st.cloCells[a.Cell]; ok {
				return cv
			}
		}
		return &Val{T: env.e.load(env.st, a), Ty: ty}
	}
	return v
}

func constToVal(e *Engine, c *types.Const) *Val {
	t := c.Type()
	switch {
	case isBool(t):
		if constant.BoolVal(c.Val()) {
			return &Val{T: "true", Ty: t}
		}
		return &Val{T: "false", Ty: t}
	case isInteger(t) || t == types.Typ[types.UntypedInt] || t == types.Typ[types.UntypedRune]:
		if b, ok := t.Underlying().(*types.Basic); ok && b.Info()&types.IsUntyped != 0 {
			return &Val{T: intLit(constant.ToInt(c.Val()).ExactString()), Ty: tUInt}
		}
		return &Val{T: e.intConst(t, constant.ToInt(c.Val()).ExactString()), Ty: t}
	case isString(t):
		return &Val{T: smtString(constant.StringVal(c.Val())), Ty: t}
	case isFloat(t):
		f, _ := constant.Float64Val(c.Val())
		return &Val{T: fpConst(f), Ty: t}
	}
	specErr("constant %v of type %v", c, t)
	return nil
}

func (env *Env) object(obj types.Object) *Val {
	e := env.e
	switch o := obj.(type) {
	case *types.Const:
		return constToVal(e, o)
	case *types.Var:
		sp := e.SSAPkgs[o.Pkg().Path()]
		if sp != nil {
			if g, ok := sp.Members[o.Name()].(*ssa.Global); ok {
				a := &Addr{Kind: aGlobal, Glob: g, Base: o.Type()}
				return &Val{T: e.load(env.st, a), Ty: o.Type()}
			}
		}
		// global of a package without SSA: opaque constant
		n := quoteSym("G$" + o.Pkg().Name() + "." + o.Name())
		return &Val{T: e.heapGet(env.st, n, e.sortOf(o.Type())), Ty: o.Type()}
	case *types.Func:
		return &Val{T: "func:" + o.FullName(), Ty: o.Type()}
	case *types.TypeName:
		return &Val{T: "type", Ty: o.Type()}
	}
	specErr("object %v", obj)
	return nil
}

func (env *Env) coerceInt(v *Val, to types.Type) string {
	return env.coerce(v, to)
}

// coerce adapts untyped constants to the sort of the other operand.
func (env *Env) coerce(v *Val, to types.Type) string {
	e := env.e
	if v.Ty == tUInt {
		if to != nil && isFloat(to) {
			f, _ := strconv.ParseFloat(strings.Trim(strings.ReplaceAll(strings.ReplaceAll(v.T, "(- ", "-"), ")", ""), " "), 64)
			return fpConst(f)
		}
		if e.bv && to != nil && isInteger(to) && to != tUInt {
			lit := strings.Trim(strings.ReplaceAll(strings.ReplaceAll(v.T, "(- ", "-"), ")", ""), " ")
			if !strings.ContainsAny(lit, "( ") {
				return e.intConst(to, lit)
			}
		}
	}
	return v.T
}

func (env *Env) binary(n *ast.BinaryExpr) *Val {
	e := env.e
	switch n.Op {
	case token.LAND:
		return &Val{T: and(env.eval(n.X).T, env.eval(n.Y).T), Ty: tBool}
	case token.LOR:
		return &Val{T: or(env.eval(n.X).T, env.eval(n.Y).T), Ty: tBool}
	}
	a := env.eval(n.X)
	b := env.eval(n.Y)
	// operand type: the typed one wins
	t := a.Ty
	if t == tUInt || t == types.Typ[types.UntypedNil] || t == nil {
		t = b.Ty
	}
	at, bt := env.coerce(a, t), env.coerce(b, t)
	switch n.Op {
	case token.EQL, token.NEQ, token.LSS, token.LEQ, token.GTR, token.GEQ:
		if t == tUInt {
			t = tInt
		}
		// a function literal (known closure) compared with nil: never nil
		if (n.Op == token.EQL || n.Op == token.NEQ) && ((a.Clo != nil && b.Ty == types.Typ[types.UntypedNil]) || (b.Clo != nil && a.Ty == types.Typ[types.UntypedNil])) {
			if n.Op == token.NEQ {
				return &Val{T: "true", Ty: tBool}
			}
			return &Val{T: "false", Ty: tBool}
		}
		if _, ok := t.Underlying().(*types.Slice); ok && (a.Ty == types.Typ[types.UntypedNil] || b.Ty == types.Typ[types.UntypedNil]) {
			s := a.T
			if a.Ty == types.Typ[types.UntypedNil] {
				s = b.T
			}
			r := eq(sx("sl_reg", s), "0")
			if n.Op == token.NEQ {
				r = not(r)
			}
			return &Val{T: r, Ty: tBool}
		}
		// in specs integer comparison is mathematical (no signedness issue in Int mode)
		if isInteger(t) && !e.bv {
			ops := map[token.Token]string{token.LSS: "<", token.LEQ: "<=", token.GTR: ">", token.GEQ: ">="}
			switch n.Op {
			case token.EQL:
				return &Val{T: eq(at, bt), Ty: tBool}
			case token.NEQ:
				return &Val{T: not(eq(at, bt)), Ty: tBool}
			}
			return &Val{T: sx(ops[n.Op], at, bt), Ty: tBool}
		}
		return &Val{T: e.compare(n.Op, at, bt, t), Ty: tBool}
	case token.ADD, token.SUB, token.MUL, token.QUO, token.REM:
		if isString(t) && n.Op == token.ADD {
			return &Val{T: sx("str.++", at, bt), Ty: t}
		}
		if isFloat(t) {
			return &Val{T: e.arith(n.Op, at, bt, t), Ty: t}
		}
		if e.bv && t != tUInt {
			return &Val{T: e.arith(n.Op, at, bt, t), Ty: t}
		}
		// mathematical integers: no wrap-around in specifications
		rt := t
		if isInteger(t) || t == tUInt {
			rt = tInt
			if a.Ty == tUInt && b.Ty == tUInt {
				rt = tUInt
			}
		}
		switch n.Op {
		case token.ADD:
			return &Val{T: sx("+", at, bt), Ty: rt}
		case token.SUB:
			return &Val{T: sx("-", at, bt), Ty: rt}
		case token.MUL:
			return &Val{T: sx("*", at, bt), Ty: rt}
		case token.QUO:
			return &Val{T: sx("div", at, bt), Ty: rt}
		case token.REM:
			return &Val{T: sx("mod", at, bt), Ty: rt}
		}
	}
	specErr("binary operator %s", n.Op)
	return nil
}

func (env *Env) selector(n *ast.SelectorExpr) *Val {
	// package-qualified?
	if id, ok := n.X.(*ast.Ident); ok {
		if _, bound := env.names[id.Name]; !bound {
			if env.fr == nil || env.fr.vars[id.Name] == nil || !env.useVars {
				if p := env.findPkg(id.Name); p != nil {
					obj := p.Scope().Lookup(n.Sel.Name)
					if obj == nil {
						specErr("%s.%s not found", id.Name, n.Sel.Name)
					}
					return env.object(obj)
				}
			}
		}
	}
	b := env.eval(n.X)
	return env.field(b, n.Sel.Name)
}

func (env *Env) findPkg(name string) *types.Package {
	if env.pkg == nil {
		return nil
	}
	for _, imp := range env.pkg.Imports() {
		if imp.Name() == name {
			return imp
		}
	}
	for _, p := range env.e.Pkgs {
		if p.Types.Name() == name {
			return p.Types
		}
	}
	return nil
}

// field resolves x.f (through embedding and pointers).
func (env *Env) field(b *Val, name string) *Val {
	e := env.e
	pkg := env.pkg
	obj, path, _ := types.LookupFieldOrMethod(b.Ty, true, pkg, name)
	if obj == nil {
		// try all loaded packages for unexported fields of foreign types
		for _, p := range e.Pkgs {
			obj, path, _ = types.LookupFieldOrMethod(b.Ty, true, p.Types, name)
			if obj != nil {
				break
			}
		}
	}
	if obj == nil {
		specErr("no field or method %s on %v", name, b.Ty)
	}
	if _, ok := obj.(*types.Func); ok {
		return &Val{T: "method:" + name, Ty: obj.Type(), Dyn: b}
	}
	cur := b
	for _, idx := range path {
		t := cur.Ty
		if pt, ok := t.Underlying().(*types.Pointer); ok {
			a := &Addr{Kind: aHeap, Ref: cur.T, Base: pt.Elem(), Path: []pathEl{{Field: idx}}}
			if cur.Addr != nil {
				na := *cur.Addr
				na.Path = append(append([]pathEl(nil), na.Path...), pathEl{Field: idx})
				a = &na
			}
			ft := pt.Elem().Underlying().(*types.Struct).Field(idx).Type()
			cur = &Val{T: e.load(env.st, a), Ty: ft}
			continue
		}
		si := e.structInfoOf(t)
		if si == nil {
			specErr("field %s of non-struct %v", name, t)
		}
		cur = &Val{T: sx(si.fields[idx], cur.T), Ty: si.ftypes[idx]}
	}
	return cur
}

func (env *Env) call(n *ast.CallExpr) *Val {
	e := env.e
	if id, ok := n.Fun.(*ast.Ident); ok {
		switch id.Name {
		case "old":
			if env.old == nil {
				specErr("old() outside a two-state context")
			}
			// parameters named inside old() are their entry values, also where
			// the parameter variable has been assigned since
			oe := env.inState(env.old)
			oe.inOld = true
			return oe.eval(n.Args[0])
		case "pre":
			if env.pre == nil {
				specErr("pre() outside a loop invariant")
			}
			return env.inState(env.pre).eval(n.Args[0])
		case "imp":
			return &Val{T: implies(env.eval(n.Args[0]).T, env.eval(n.Args[1]).T), Ty: tBool}
		case "iff":
			return &Val{T: eq(env.eval(n.Args[0]).T, env.eval(n.Args[1]).T), Ty: tBool}
		case "ite":
			c := env.eval(n.Args[0])
			a := env.eval(n.Args[1])
			b := env.eval(n.Args[2])
			t := a.Ty
			if t == tUInt {
				t = b.Ty
			}
			return &Val{T: ite(c.T, env.coerce(a, t), env.coerce(b, t)), Ty: t}
		case "forall", "exists":
			// forall(i, body) / forall(i, j, body); bound variables are mathematical ints
			var bs []string
			ne := env
			var triggers []ast.Expr
			for _, a := range n.Args[:len(n.Args)-1] {
				srt := "Int"
				ty := types.Type(tInt)
				if e.bv {
					srt = "(_ BitVec 64)"
				}
				var v string
				if ce, ok := a.(*ast.CallExpr); ok {
					if fid, ok := ce.Fun.(*ast.Ident); ok && fid.Name == "trigger" {
						triggers = append(triggers, ce)
						continue
					}
				}
				switch b := a.(type) {
				case *ast.Ident:
					v = b.Name
				case *ast.CallExpr:
					// typed binder: sort(name), e.g. intarr(a), string(s), base.Stage(s)
					v = b.Args[0].(*ast.Ident).Name
					kw := types.ExprString(b.Fun)
					srt, ty = e.specSort(env, kw)
				default:
					specErr("bad binder in %s", id.Name)
				}
				bn := quoteSym("q$" + v)
				bs = append(bs, fmt.Sprintf("(%s %s)", bn, srt))
				ne = ne.with(v, &Val{T: bn, Ty: ty})
				ne.closed = true
				// a bound variable shadows a local variable of the same name
				nb := map[string]bool{v: true}
				for k := range ne.bound {
					nb[k] = true
				}
				ne.bound = nb
			}
			body := ne.eval(n.Args[len(n.Args)-1])
			bt := body.T
			if len(triggers) > 0 {
				var pats []string
				for _, tr := range triggers {
					var ts []string
					for _, ta := range tr.(*ast.CallExpr).Args {
						ts = append(ts, ne.eval(ta).T)
					}
					pats = append(pats, ":pattern ("+strings.Join(ts, " ")+")")
				}
				bt = "(! " + bt + " " + strings.Join(pats, " ") + ")"
			}
			return &Val{T: fmt.Sprintf("(%s (%s) %s)", id.Name, strings.Join(bs, " "), bt), Ty: tBool}
		case "len":
			v := env.eval(n.Args[0])
			return &Val{T: e.lenOf(env.st, v), Ty: tInt}
		case "cap":
			v := env.eval(n.Args[0])
			return &Val{T: sx("sl_cap", v.T), Ty: tInt}
		case "has":
			m := env.eval(n.Args[0])
			k := env.eval(n.Args[1])
			mt := m.Ty.Underlying().(*types.Map)
			_, _, mh, mhs := e.mapComps(mt)
			return &Val{T: and(not(eq(m.T, "0")), sx("select", sx("select", e.heapGet(env.st, mh, mhs), m.T), env.coerce(k, mt.Key()))), Ty: tBool}
		case "typeis":
			// typeis(x, T): dynamic type of interface value x is T
			v := env.eval(n.Args[0])
			t := env.evalType(n.Args[1])
			e.typeFuncs()
			if _, isIface := t.Underlying().(*types.Interface); isIface {
				// typeis(x, I): x's dynamic type implements interface I
				return &Val{T: and(not(eq(v.T, "0")), sx(e.implementsPred(t), sx("typeof", v.T))), Ty: tBool}
			}
			e.noteBoxedType(t)
			return &Val{T: and(not(eq(v.T, "0")), eq(sx("typeof", v.T), fmt.Sprint(e.typeID(t)))), Ty: tBool}
		case "zero":
			// zero(T): the zero value of type T
			t := env.evalType(n.Args[0])
			return &Val{T: e.zeroOf(t), Ty: t}
		case "cast":
			// cast(x, I): the interface value x seen through interface type I
			// (the value of x.(I) where that assertion succeeds; same reference)
			v := env.eval(n.Args[0])
			t := env.evalType(n.Args[1])
			if _, isIface := t.Underlying().(*types.Interface); !isIface {
				specErr("cast(x, I): I must be an interface type")
			}
			return &Val{T: v.T, Ty: t}
		case "unbox":
			v := env.eval(n.Args[0])
			t := env.evalType(n.Args[1])
			_, ub, _ := e.boxFuncs(t)
			return &Val{T: sx(ub, v.T), Ty: t}
		case "private":
			// private(x): the slice/map/pointer x refers to an object that is
			// still private to the verified function (engine-level fact, see
			// private.go).  Checked where an invariant is checked; where an
			// invariant is assumed (arbitrary iteration) the object is
			// re-registered as private.
			v := env.eval(n.Args[0])
			ref := v.T
			if _, ok := v.Ty.Underlying().(*types.Slice); ok {
				ref = sx("sl_reg", v.T)
			}
			st := env.sinkOr()
			if env.assuming {
				r := e.freshName("private")
				st.declare(r, "Int")
				st.define(eq(r, ref))
				e.markPrivate(st, r)
				e.notePrivType(r, v.Ty)
				if id, ok := n.Args[0].(*ast.Ident); ok && env.fr != nil {
					if tv, ok := env.fr.vars[id.Name]; ok && tv.Addr != nil && tv.Addr.Kind == aPtr && len(tv.Addr.Path) == 0 && st.priv[tv.Addr.Ref] {
						if st.privClean == nil {
							st.privClean = map[string]bool{}
						}
						st.privClean["holds:"+tv.Addr.Ref] = true
					}
				}
				return &Val{T: "true", Ty: tBool}
			}
			if e.isPrivateRef(st, ref) {
				return &Val{T: "true", Ty: tBool}
			}
			// a variable living in a private cell: what was last stored into it
			if id, ok := n.Args[0].(*ast.Ident); ok && env.fr != nil {
				if tv, ok := env.fr.vars[id.Name]; ok && tv.Addr != nil && tv.Addr.Kind == aPtr && len(tv.Addr.Path) == 0 {
					if st.priv[tv.Addr.Ref] && st.privClean["holds:"+tv.Addr.Ref] {
						return &Val{T: "true", Ty: tBool}
					}
				}
			}
			return &Val{T: "false", Ty: tBool}
		case "fst", "snd", "third", "fourth":
			// components of a multi-value result
			v := env.eval(n.Args[0])
			i := map[string]int{"fst": 0, "snd": 1, "third": 2, "fourth": 3}[id.Name]
			if v.Tup == nil || i >= len(v.Tup) {
				specErr("%s of a non-tuple", id.Name)
			}
			return v.Tup[i]
		case "add", "remove":
			// set update: add(s, x) / remove(s, x) on a ghost set
			s := env.eval(n.Args[0])
			x := env.eval(n.Args[1])
			b := "true"
			if id.Name == "remove" {
				b = "false"
			}
			return &Val{T: sx("store", s.T, x.T, b), Ty: s.Ty}
		case "mhas", "mval":
			return env.absMap(id.Name, n.Args)
		case "decimal1", "decimal1val":
			// decimal1(t, lo, hi): the float64 t is one of the values k/10,
			// lo <= k <= hi, as strconv.ParseFloat returns them (correctly
			// rounded). decimal1val(t, lo, hi) is that k.
			v := env.eval(n.Args[0])
			lo, _ := strconv.Atoi(env.eval(n.Args[1]).T)
			hi, _ := strconv.Atoi(env.eval(n.Args[2]).T)
			if hi-lo > 5000 || hi < lo {
				specErr("decimal1: bad range")
			}
			var alts []string
			val := e.intConst(tInt, "0")
			for k := hi; k >= lo; k-- {
				f, err := strconv.ParseFloat(fmt.Sprintf("%d.%d", k/10, k%10), 64)
				if err != nil {
					specErr("decimal1: %v", err)
				}
				c := eq(v.T, fpConst(f))
				alts = append(alts, c)
				val = ite(c, e.intConst(tInt, fmt.Sprint(k)), val)
			}
			if id.Name == "decimal1" {
				return &Val{T: or(alts...), Ty: tBool}
			}
			return &Val{T: val, Ty: tInt}
		case "unfold":
			// unfold(f(args)): the definitional instance f(args) == body[args]
			ce, ok := n.Args[0].(*ast.CallExpr)
			if !ok {
				specErr("unfold needs f(args)")
			}
			fid, ok := ce.Fun.(*ast.Ident)
			if !ok || e.SpecFuncs[fid.Name] == nil || e.SpecFuncs[fid.Name].Body == nil {
				specErr("unfold: not a defined spec function")
			}
			sf := e.SpecFuncs[fid.Name]
			app := env.specCall(sf, ce.Args)
			penv := e.specEnv(sf.Pkg)
			benv := penv
			for i, p := range sf.Params {
				v := env.eval(ce.Args[i])
				_, pt := e.specSort(penv, p.Sort)
				benv = benv.with(p.Name, &Val{T: env.coerce(v, pt), Ty: pt})
			}
			benv.closed = true
			_, rt := e.specSort(penv, sf.Ret)
			body := benv.eval(sf.Body.Expr)
			return &Val{T: eq(app.T, benv.coerce(body, rt)), Ty: tBool}
		case "elems":
			// elems(s): the element array of slice s's backing region in the current state
			v := env.eval(n.Args[0])
			sl, ok := v.Ty.Underlying().(*types.Slice)
			if !ok {
				specErr("elems of non-slice")
			}
			c, s := e.elemComp(sl.Elem())
			return &Val{T: sx("select", e.heapGet(env.st, c, s), sx("sl_reg", v.T)), Ty: types.NewArray(sl.Elem(), 0)}
		case "soff":
			v := env.eval(n.Args[0])
			return &Val{T: sx("sl_off", v.T), Ty: tInt}
		case "sreg":
			v := env.eval(n.Args[0])
			return &Val{T: sx("sl_reg", v.T), Ty: tInt}
		case "allocated":
			v := env.eval(n.Args[0])
			return &Val{T: sx("select", e.allocGet(env.st), v.T), Ty: tBool}
		case "errsite":
			// errsite(x): x is an error built by an error constructor in the
			// verified code (errors.Errorf, util error .Errorf/.Wrap ...), as
			// opposed to nil or a value that came from elsewhere
			e.declOnce("fun:isErrSite", "(declare-fun isErrSite (Int) Bool)")
			e.declOnce("ax:isErrSite0", "(assert (not (isErrSite 0)))")
			v := env.eval(n.Args[0])
			return &Val{T: sx("isErrSite", v.T), Ty: tBool}
		case "locked":
			// locked(x.mu): the verified code holds that mutex (lock.go)
			return &Val{T: e.isHeld(env.st, env.addrOfExpr(n.Args[0])), Ty: tBool}
		case "errIs":
			// errIs(err, target): the relation errors.Is is modelled by (errorsis.go)
			e.declOnce("fun:errIs", "(declare-fun errIs (Int Int) Bool)")
			e.declOnce("ax:errIs", "(assert (forall ((a Int) (b Int)) (! (and (=> (= a 0) (not (errIs a b))) (=> (and (not (= a 0)) (= a b)) (errIs a b))) :pattern ((errIs a b)))))")
			a := env.eval(n.Args[0])
			b := env.eval(n.Args[1])
			// a concrete error (pointer) is compared as the error value it boxes to
			boxed := func(v *Val) string {
				if _, isPtr := v.Ty.Underlying().(*types.Pointer); isPtr {
					box, _, _ := e.boxFuncs(v.Ty)
					return sx(box, v.T)
				}
				return v.T
			}
			return &Val{T: sx("errIs", boxed(a), boxed(b)), Ty: tBool}
		case "plainerr":
			// plainerr(x): x was built by a constructor that wraps no other error
			e.declOnce("fun:isPlainErr", "(declare-fun isPlainErr (Int) Bool)")
			v := env.eval(n.Args[0])
			return &Val{T: sx("isPlainErr", v.T), Ty: tBool}
		case "ghost":
			// ghost(name): current value of an integer ghost variable
			nm := n.Args[0].(*ast.Ident).Name
			if g, ok := env.st.ghost["g:"+nm]; ok {
				return &Val{T: g, Ty: tInt}
			}
			return &Val{T: "0", Ty: tInt}
		case "int", "uint", "int64", "uint64", "int32", "uint32", "int16", "uint16", "int8", "uint8", "byte", "float64":
			v := env.eval(n.Args[0])
			if id.Name == "float64" {
				if isFloat(v.Ty) {
					return &Val{T: v.T, Ty: types.Typ[types.Float64]}
				}
				// integer -> float64, round to nearest even (as Go does)
				if e.bv {
					if v.Ty == tUInt {
						return &Val{T: sx("(_ to_fp 11 53)", "RNE", sx("to_real", v.T)), Ty: types.Typ[types.Float64]}
					}
					if isUnsigned(v.Ty) {
						return &Val{T: sx("(_ to_fp_unsigned 11 53)", "RNE", v.T), Ty: types.Typ[types.Float64]}
					}
					return &Val{T: sx("(_ to_fp 11 53)", "RNE", v.T), Ty: types.Typ[types.Float64]}
				}
				return &Val{T: sx("(_ to_fp 11 53)", "RNE", sx("to_real", v.T)), Ty: types.Typ[types.Float64]}
			}
			if !e.bv {
				return &Val{T: v.T, Ty: tInt}
			}
			return v
		}
		if sf, ok := e.SpecFuncs[id.Name]; ok {
			return env.specCall(sf, n.Args)
		}
		// a Go function of the current package, evaluated purely
		if env.pkg != nil {
			if obj := env.pkg.Scope().Lookup(id.Name); obj != nil {
				switch o := obj.(type) {
				case *types.Func:
					return env.goCall(e.Prog.FuncValue(o), nil, n.Args)
				case *types.TypeName:
					// conversion T(x)
					v := env.eval(n.Args[0])
					return &Val{T: env.coerce(v, o.Type()), Ty: o.Type()}
				}
			}
		}
		specErr("unknown function %q", id.Name)
	}
	if sel, ok := n.Fun.(*ast.SelectorExpr); ok {
		// pkg.Func(...) or x.Method(...)
		if id, ok := sel.X.(*ast.Ident); ok {
			if _, bound := env.names[id.Name]; !bound && !(env.useVars && env.fr != nil && env.fr.vars[id.Name] != nil) {
				if p := env.findPkg(id.Name); p != nil {
					obj := p.Scope().Lookup(sel.Sel.Name)
					switch o := obj.(type) {
					case *types.Func:
						return env.goCall(e.Prog.FuncValue(o), nil, n.Args)
					case *types.TypeName:
						v := env.eval(n.Args[0])
						return &Val{T: env.coerce(v, o.Type()), Ty: o.Type()}
					}
					specErr("%s.%s is not callable", id.Name, sel.Sel.Name)
				}
			}
		}
		recv := env.eval(sel.X)
		return env.methodCall(recv, sel.Sel.Name, n.Args)
	}
	specErr("unsupported call %v", n.Fun)
	return nil
}

func (env *Env) evalType(x ast.Expr) types.Type {
	switch n := x.(type) {
	case *ast.Ident:
		if t, ok := env.tparams[n.Name]; ok {
			return t // type parameter of the generic function whose contract is evaluated
		}
		if obj := env.pkg.Scope().Lookup(n.Name); obj != nil {
			return obj.Type()
		}
		if obj := types.Universe.Lookup(n.Name); obj != nil {
			return obj.Type()
		}
	case *ast.SelectorExpr:
		if id, ok := n.X.(*ast.Ident); ok {
			if p := env.findPkg(id.Name); p != nil {
				if obj := p.Scope().Lookup(n.Sel.Name); obj != nil {
					return obj.Type()
				}
			}
		}
	case *ast.StarExpr:
		return types.NewPointer(env.evalType(n.X))
	case *ast.ParenExpr:
		return env.evalType(n.X)
	case *ast.MapType:
		return types.NewMap(env.evalType(n.Key), env.evalType(n.Value))
	case *ast.ArrayType:
		if n.Len == nil {
			return types.NewSlice(env.evalType(n.Elt))
		}
	case *ast.IndexExpr:
		// generic instantiation T[A]
		if g, ok := env.evalType(n.X).(*types.Named); ok {
			if inst, err := types.Instantiate(nil, g.Origin(), []types.Type{env.evalType(n.Index)}, false); err == nil {
				return inst
			}
		}
	}
	specErr("unknown type %v", types.ExprString(x))
	return nil
}

// absMap: an opaque object (e.g. a util.LockedMap) viewed as an abstract map;
// mhas(o, k) and mval(o, k, V) are uninterpreted functions of the object
// reference and the key (the object's state is not modelled beyond that).
func (env *Env) absMap(name string, args []ast.Expr) *Val {
	e := env.e
	o := env.eval(args[0])
	k := env.eval(args[1])
	// the view lives in the heap (same components as Go maps, keyed by the
	// object's reference), so contracts can update it: `modifies mview(x)`
	if name == "mhas" {
		_, _, mh, mhs, ok := e.mviewComps(o.Ty)
		if !ok {
			specErr("mhas: %v is not a two-parameter map-like type", o.Ty)
		}
		return &Val{T: and(not(eq(o.T, "0")), sx("select", sx("select", e.heapGet(env.st, mh, mhs), o.T), k.T)), Ty: tBool}
	}
	var vt types.Type
	if id, ok := args[2].(*ast.Ident); ok && env.names[id.Name] != nil {
		vt = env.names[id.Name].Ty // mval(o, k, x): "of the type of x"
	} else {
		vt = env.evalType(args[2])
	}
	vs := e.sortOf(vt)
	_ = vs
	mv, mvs, _, _, ok := e.mviewComps(o.Ty)
	if !ok {
		specErr("mval: %v is not a two-parameter map-like type", o.Ty)
	}
	return &Val{T: sx("select", sx("select", e.heapGet(env.st, mv, mvs), o.T), k.T), Ty: vt}
}

// mviewComps: the heap components of the abstract map view of object x, from
// the two type arguments of its (generic) map-like type: LockedMap[K,V],
// *ShardedMap[K,V], ...
func (e *Engine) mviewComps(t types.Type) (mv, mvs, mh, mhs string, ok bool) {
	t = types.Unalias(t)
	if p, isP := t.Underlying().(*types.Pointer); isP {
		if _, named := t.(*types.Named); !named {
			t = types.Unalias(p.Elem())
		}
	}
	n, isN := t.(*types.Named)
	if !isN || n.TypeArgs() == nil || n.TypeArgs().Len() != 2 {
		return
	}
	mv, mvs, mh, mhs = e.mapComps(types.NewMap(n.TypeArgs().At(0), n.TypeArgs().At(1)))
	return mv, mvs, mh, mhs, true
}

func (e *Engine) lenOf(st *State, v *Val) string {
	switch t := v.Ty.Underlying().(type) {
	case *types.Slice:
		return sx("sl_len", v.T)
	case *types.Basic:
		return sx("str.len", v.T)
	case *types.Map:
		ml, mls := e.mapLenComp()
		return sx("select", e.heapGet(st, ml, mls), v.T)
	case *types.Array:
		return fmt.Sprint(t.Len())
	case *types.Pointer:
		if at, ok := t.Elem().Underlying().(*types.Array); ok {
			return fmt.Sprint(at.Len())
		}
	}
	specErr("len of %v", v.Ty)
	return ""
}

func (e *Engine) specSort(env *Env, kw string) (string, types.Type) {
	switch kw {
	case "int":
		if e.bv {
			return "(_ BitVec 64)", tInt
		}
		return "Int", tInt
	case "bool":
		return "Bool", tBool
	case "string":
		return "String", tString
	case "mathint":
		return "Int", tInt
	case "intarr":
		return "(Array Int Int)", types.NewArray(tInt, 0)
	case "strarr":
		return "(Array Int String)", types.NewArray(tString, 0)
	case "bytesarr":
		// the element array of a [][]byte
		e.declSlice()
		return "(Array Int Slice)", types.NewArray(types.NewSlice(types.Typ[types.Uint8]), 0)
	case "intset":
		return "(Array Int Bool)", types.NewArray(tBool, 0)
	case "strset":
		return "(Array String Bool)", types.NewArray(tBool, 0)
	}
	// Go type expression
	x, err := parseTypeExpr(kw)
	if err != nil {
		specErr("spec sort %q: %v", kw, err)
	}
	t := env.evalType(x)
	return e.sortOf(t), t
}

func (env *Env) specCall(sf *SpecFunc, args []ast.Expr) *Val {
	e := env.e
	e.declareSpecFunc(sf)
	if len(args) != len(sf.Params) {
		specErr("spec func %s: want %d args", sf.Name, len(sf.Params))
	}
	penv := e.specEnv(sf.Pkg)
	var as []string
	for i, a := range args {
		v := env.eval(a)
		_, pt := e.specSort(penv, sf.Params[i].Sort)
		as = append(as, env.coerce(v, pt))
	}
	_, rt := e.specSort(penv, sf.Ret)
	f := quoteSym("spec$" + sf.Name)
	if len(as) == 0 {
		return &Val{T: f, Ty: rt}
	}
	return &Val{T: sx(f, as...), Ty: rt}
}

// specEnv is a heap-less environment for spec function bodies.
func (e *Engine) specEnv(pkgPath string) *Env {
	env := &Env{e: e, st: e.specState(), names: map[string]*Val{}}
	env.sink = env.st
	for _, p := range e.Pkgs {
		if p.PkgPath == pkgPath {
			env.pkg = p.Types
		}
	}
	if env.pkg == nil && len(e.Pkgs) > 0 {
		env.pkg = e.Pkgs[0].Types
	}
	return env
}

func (e *Engine) specState() *State {
	if e.specSt == nil {
		e.specSt = e.newState()
	}
	return e.specSt
}

func (e *Engine) declareSpecFunc(sf *SpecFunc) {
	key := "spec:" + sf.Name
	if e.declared[key] {
		return
	}
	e.declared[key] = true
	env := e.specEnv(sf.Pkg)
	f := quoteSym("spec$" + sf.Name)
	var ps, psorts []string
	benv := env
	benv.closed = true
	for _, p := range sf.Params {
		s, t := e.specSort(env, p.Sort)
		bn := quoteSym("a$" + p.Name)
		ps = append(ps, fmt.Sprintf("(%s %s)", bn, s))
		psorts = append(psorts, s)
		benv = benv.with(p.Name, &Val{T: bn, Ty: t})
	}
	rs, rt := e.specSort(env, sf.Ret)
	if sf.Body == nil {
		e.addDecl(fmt.Sprintf("(declare-fun %s (%s) %s)", f, strings.Join(psorts, " "), rs))
		return
	}
	if sf.Rec {
		// reserve a slot so that the definition precedes later uses, then
		// evaluate the body (which may call itself)
		// recursive spec functions are uninterpreted; their definition is
		// supplied instance-wise through unfold(f(args)) (no define-fun-rec:
		// it makes the solvers diverge on unrelated goals)
		// the true recursive definition is used only when searching for a
		// replayable counterexample (helpers it calls get declared first)
		body := benv.eval(sf.Body.Expr)
		decl := fmt.Sprintf("(declare-fun %s (%s) %s)", f, strings.Join(psorts, " "), rs)
		e.addDecl(decl)
		e.Assumed["recursive spec function "+sf.Name+" is well-founded (its unfold instances are consistent)"] = true
		if e.recDefs == nil {
			e.recDefs = map[string]string{}
		}
		e.recDefs[decl] = fmt.Sprintf("(define-fun-rec %s (%s) %s %s)", f, strings.Join(ps, " "), rs, benv.coerce(body, rt))
		var pn []string
		for _, p := range sf.Params {
			pn = append(pn, quoteSym("a$"+p.Name))
		}
		e.recInfo = append(e.recInfo, recFun{sym: f, params: pn, body: benv.coerce(body, rt)})
		return
	}
	body := benv.eval(sf.Body.Expr)
	e.addDecl(fmt.Sprintf("(define-fun %s (%s) %s %s)", f, strings.Join(ps, " "), rs, benv.coerce(body, rt)))
	if strings.Contains(body.T, "spec$") {
		var pn []string
		for _, p := range sf.Params {
			pn = append(pn, quoteSym("a$"+p.Name))
		}
		e.recInfo = append(e.recInfo, recFun{sym: f, params: pn, body: benv.coerce(body, rt), macro: true})
	}
}

// assertAxioms adds all axioms to a path.
func (e *Engine) assertAxioms(st *State) {
	for _, ax := range e.Axioms {
		key := "axiom:" + ax.Name
		if e.declared[key] {
			continue
		}
		e.declared[key] = true
		env := e.specEnv(ax.Pkg)
		f := e.evalBool(env, ax.C)
		e.addDecl("(assert " + f + ") ; axiom " + ax.Name)
		e.Assumed["axiom:"+ax.Name+": "+ax.C.Text] = true
	}
}

// methodCall: x.M(args) in a specification.
func (env *Env) methodCall(recv *Val, name string, args []ast.Expr) *Val {
	e := env.e
	var avs []*Val
	for _, a := range args {
		avs = append(avs, env.eval(a))
	}
	if _, ok := recv.Ty.Underlying().(*types.Interface); ok {
		obj, _, _ := types.LookupFieldOrMethod(recv.Ty, false, env.pkg, name)
		if obj == nil {
			for _, p := range e.Pkgs {
				obj, _, _ = types.LookupFieldOrMethod(recv.Ty, false, p.Types, name)
				if obj != nil {
					break
				}
			}
		}
		fn, ok := obj.(*types.Func)
		if !ok {
			specErr("no method %s on %v", name, recv.Ty)
		}
		var rs []*Val
		if env.closed {
			e.rawIface = true // under a binder: plain applications, nothing named
			rs = e.ifaceMethodApp(env.st, fn, recv, avs)
			e.rawIface = false
		} else {
			rs = e.ifaceMethodApp(env.sinkOr(), fn, recv, avs)
		}
		if len(rs) != 1 {
			return &Val{Tup: rs}
		}
		return rs[0]
	}
	sel := e.Prog.MethodSets.MethodSet(recv.Ty).Lookup(env.pkg, name)
	if sel == nil {
		sel = e.Prog.MethodSets.MethodSet(types.NewPointer(recv.Ty)).Lookup(env.pkg, name)
		if sel == nil {
			for _, p := range e.Pkgs {
				if sel = e.Prog.MethodSets.MethodSet(recv.Ty).Lookup(p.Types, name); sel != nil {
					break
				}
			}
		}
		if sel == nil {
			specErr("no method %s on %v", name, recv.Ty)
		}
	}
	fn := e.Prog.MethodValue(sel)
	return env.goCallVals(fn, append([]*Val{recv}, avs...))
}

func (env *Env) goCall(fn *ssa.Function, recv *Val, args []ast.Expr) *Val {
	var avs []*Val
	if recv != nil {
		avs = append(avs, recv)
	}
	for _, a := range args {
		avs = append(avs, env.eval(a))
	}
	return env.goCallVals(fn, avs)
}

// goCallVals evaluates a real Go function as a pure expression: all paths
// are executed symbolically on a copy of the state and merged with ite.
func (env *Env) goCallVals(fn *ssa.Function, args []*Val) *Val {
	e := env.e
	if fn == nil {
		specErr("function has no SSA")
	}
	// coerce untyped constants to parameter types
	for i, a := range args {
		if i < len(fn.Params) && (a.Ty == tUInt || a.Ty == types.Typ[types.UntypedNil]) {
			args[i] = &Val{T: env.coerce(a, fn.Params[i].Type()), Ty: fn.Params[i].Type()}
		}
	}
	if c := e.contractFor(fn); c != nil && c.Pure && !c.Inline {
		// uninterpreted pure function described by its contract
		pst := env.st
		if env.closed {
			// under a binder the application mentions bound variables: its
			// ensures cannot be assumed on the path (they would escape the
			// quantifier); only the uninterpreted application is used
			pst = env.st.clone()
		}
		rs := e.pureContractApp(pst, fn, c, args)
		if len(rs) == 1 {
			return rs[0]
		}
		return &Val{Tup: rs}
	}
	if fn.Blocks == nil {
		specErr("spec calls %s which has no body", fn.String())
	}
	e.quiet++
	defer func() { e.quiet-- }()
	sink := env.sink
	if sink == nil {
		sink = env.st
	}
	base := env.st.snapshot()
	base.items = sink.items
	base.taint = map[string]bool{}
	base.cloCells = env.st.cloCells
	at := base.items
	outs := e.collectInline(base, fn, args, nil)
	if len(outs) == 0 {
		specErr("spec call to %s has no returning path", fn.String())
	}
	merged, res, ok := e.mergeOutcomes(at, outs)
	if !ok {
		specErr("spec call to %s is not pure/mergeable", fn.String())
	}
	if env.closed {
		// definitions may mention bound variables: substitute them back
		var defs, decls []string
		for p := merged; p != nil && p != at; p = p.prev {
			if strings.HasPrefix(p.cmd, "(declare-const ") {
				decls = append(decls, p.cmd)
			} else {
				defs = append(defs, p.cmd)
			}
		}
		for i, r := range res {
			t := inlineDefs(r.T, defs, decls)
			if t == "" {
				specErr("spec call to %s under a binder depends on a non-definitional value", fn.String())
			}
			res[i] = &Val{T: t, Ty: r.Ty}
		}
	} else {
		// splice merged definitions into the live path state
		sink.items = merged
	}
	if len(res) == 1 {
		return res[0]
	}
	return &Val{Tup: res}
}

func parseTypeExpr(s string) (ast.Expr, error) {
	return parserParseExpr(s)
}
