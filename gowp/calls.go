package gowp

import (
	"fmt"
	"go/types"
	"os"
	"strings"

	"golang.org/x/tools/go/ssa"
)

const maxInlineDepth = 8

var traceInline = os.Getenv("VERIF_TRACE") != ""

type outcome struct {
	st   *State
	rets []*Val
}

// collectInline symbolically executes fn on st (which is consumed) and
// returns one outcome per returning path.  The callee frame is popped in each
// outcome state.
func (e *Engine) collectInline(st *State, fn *ssa.Function, args []*Val, bind []*Val) []outcome {
	var outs []outcome
	fr := &Frame{fn: fn, vals: map[ssa.Value]*Val{}, vars: map[string]*Val{}, loopPre: map[*ssa.BasicBlock]*State{},
		variant: map[*ssa.BasicBlock]string{}, params: map[string]*Val{}, depth: len(st.frames)}
	if len(args) != len(fn.Params) {
		panic(unsupported{fmt.Sprintf("call %s with %d args, want %d", fn.Name(), len(args), len(fn.Params))})
	}
	for i, p := range fn.Params {
		fr.vals[p] = args[i]
		fr.params[p.Name()] = args[i]
	}
	for i, fv := range fn.FreeVars {
		if i < len(bind) {
			fr.vals[fv] = bind[i]
			fr.params[fv.Name()] = bind[i]
		}
	}
	fr.entry = st.snapshot()
	nframes := len(st.frames)
	fr.ret = func(st *State, rets []*Val) {
		if len(st.frames) != nframes {
			// frame was the only one (spec evaluation state)
			st.frames = st.frames[:nframes]
		}
		outs = append(outs, outcome{st, rets})
	}
	// when called on a frameless state doReturn must not pop below zero
	st.frames = append(st.frames, fr)
	if nframes == 0 {
		// keep a sentinel so that doReturn pops exactly the callee frame
		st.frames = append([]*Frame{{fn: fn, vals: map[ssa.Value]*Val{}, vars: map[string]*Val{}}}, st.frames...)
		nframes = 1
	}
	e.runPath(func() { e.execBlock(st, fn.Blocks[0], nil) })
	return outs
}

// mergeOutcomes folds the outcomes of a heap-neutral call into a single
// item list (extending `at`) and ite-merged results.
func (e *Engine) mergeOutcomes(at *item, outs []outcome) (*item, []*Val, bool) {
	if len(outs) == 0 {
		return nil, nil, false
	}
	nres := len(outs[0].rets)
	for _, o := range outs {
		if len(o.rets) != nres {
			return nil, nil, false
		}
		for _, r := range o.rets {
			if r.T == "" || r.Clo != nil || r.Tup != nil || r.Iter != nil || (r.Addr != nil && r.T == "") {
				return nil, nil, false
			}
		}
	}
	seen := map[*item]bool{}
	cur := at
	push := func(cmd string, kind int) {
		n := 1
		if cur != nil {
			n = cur.n + 1
		}
		cur = &item{prev: cur, cmd: cmd, kind: kind, n: n}
	}
	conds := make([]string, len(outs))
	for oi, o := range outs {
		// items since `at`, oldest first
		var seq []*item
		for p := o.st.items; p != nil && p != at; p = p.prev {
			seq = append(seq, p)
		}
		if at != nil {
			// make sure `at` is really an ancestor
			ok := false
			for p := o.st.items; p != nil; p = p.prev {
				if p == at {
					ok = true
					break
				}
			}
			if !ok {
				return nil, nil, false
			}
		}
		var branches []string
		for i := len(seq) - 1; i >= 0; i-- {
			it := seq[i]
			switch it.kind {
			case kBranch:
				branches = append(branches, strings.TrimSuffix(strings.TrimPrefix(it.cmd, "(assert "), ")"))
			case kAssume:
				if !seen[it] {
					seen[it] = true
					body := strings.TrimSuffix(strings.TrimPrefix(it.cmd, "(assert "), ")")
					push("(assert "+implies(and(branches...), body)+")", kAssume)
				}
			default:
				if !seen[it] {
					seen[it] = true
					push(it.cmd, kDef)
				}
			}
		}
		conds[oi] = and(branches...)
	}
	var res []*Val
	for j := 0; j < nres; j++ {
		t := outs[len(outs)-1].rets[j].T
		for oi := len(outs) - 2; oi >= 0; oi-- {
			t = ite(conds[oi], outs[oi].rets[j].T, t)
		}
		rv := &Val{T: t, Ty: outs[0].rets[j].Ty}
		if len(outs) == 1 {
			rv = outs[0].rets[j]
		}
		res = append(res, rv)
	}
	return cur, res, true
}

func sameMem(a, b *State) bool {
	if a.ghost["$epoch"] != b.ghost["$epoch"] || len(a.heap) < len(b.heap) {
		return false
	}
	for k, v := range b.heap {
		if a.heap[k] != v {
			return false
		}
	}
	for k, v := range a.heap {
		if bv, ok := b.heap[k]; ok && bv != v {
			return false
		} else if !ok && !strings.HasSuffix(strings.Trim(v, "|"), "@"+a.ghost["$epoch"]) && !strings.HasSuffix(strings.Trim(v, "|"), "@0") {
			return false
		}
	}
	for k, v := range b.cells {
		if a.cells[k] != v {
			return false
		}
	}
	for k, v := range a.ghost {
		if strings.HasPrefix(k, "g:") && b.ghost[k] != v {
			return false
		}
	}
	return true
}

// doCall handles every call instruction.
func (e *Engine) doCall(st *State, instr ssa.Instruction, call *ssa.CallCommon, k func(st *State, res *Val)) {
	var args []*Val
	for _, a := range call.Args {
		args = append(args, e.get(st, a))
	}
	if call.IsInvoke() {
		recv := e.get(st, call.Value)
		e.invoke(st, instr, call, recv, args, k)
		return
	}
	if b, ok := call.Value.(*ssa.Builtin); ok {
		k(st, e.builtin(st, instr, b, call, args))
		return
	}
	fv := e.get(st, call.Value)
	if fv.Clo == nil && fv.Addr != nil {
		// function value loaded from a cell
		fv = e.envFor(st, st.top()).materialize(&Val{Addr: fv.Addr, T: "addr", Ty: fv.Ty})
	}
	if fv.Clo == nil {
		// a package-level func variable declared read-only by contract
		// (`global f nonnil`): the function literal it is initialised with
		if fn := e.globalFuncOf(call.Value); fn != nil {
			e.callFunc(st, instr, fn, args, nil, call, k)
			return
		}
		// opaque function value (parameter, field, ...): arbitrary effect
		e.callOpaque(st, instr, call, fv, args, k)
		return
	}
	e.callFunc(st, instr, fv.Clo.Fn, args, fv.Clo.Bind, call, k)
}

func resultVal(sig *types.Signature, rets []*Val) *Val {
	switch len(rets) {
	case 0:
		return nil
	case 1:
		if sig.Results().Len() == 1 {
			return rets[0]
		}
	}
	return &Val{Tup: rets, Ty: sig.Results()}
}

func (e *Engine) callFunc(st *State, instr ssa.Instruction, fn *ssa.Function, args, bind []*Val, call *ssa.CallCommon, k func(st *State, res *Val)) {
	name := fn.String()
	e.callSiteReqs(st, instr, fn, args)
	if len(st.frames) > 0 && st.frames[0].contract != nil && len(st.frames[0].contract.CallSiteEns[stripTypeArgs(fn.Name())]) > 0 {
		k0 := k
		k = func(st *State, res *Val) {
			e.callSiteEns(st, stripTypeArgs(fn.Name()), fn.Signature.Recv() != nil, args, res)
			k0(st, res)
		}
	}
	// a higher-order schema (BatchWork, RunJobWorker ...) describes the call
	// for its callers; a contract on such a function is for the proof of its
	// own body (C33) and is not what callers see
	if h, ok := externs[name]; ok {
		if h(e, st, instr, fn, args, k) {
			return
		}
	}
	if c := e.contractFor(fn); c != nil && !c.Inline {
		e.callContract(st, instr, fn, c, args, k)
		return
	}
	if isErrCtor(name) {
		k(st, e.errCtor(st, fn, args, instr))
		return
	}
	if fn.Pkg != nil || fn.Origin() != nil {
		pp := ""
		if fn.Pkg != nil {
			pp = fn.Pkg.Pkg.Path()
		} else if fn.Origin().Pkg != nil {
			pp = fn.Origin().Pkg.Pkg.Path()
		}
		if isEffectFreePkg(pp) {
			k(st, e.freshResults(st, fn.Name(), fn.Signature))
			return
		}
	}
	if fn.Blocks == nil || len(st.frames) >= maxInlineDepth || e.onStack(st, fn) {
		if pureExterns[name] {
			if name == "(*sync.Pool).Put" {
				for _, a := range args {
					e.escape(st, a) // the pooled object becomes reachable by others
				}
			}
			k(st, e.freshResults(st, fn.Name(), fn.Signature))
			return
		}
		if isErrCtor(name) {
			k(st, e.errCtor(st, fn, args, instr))
			return
		}
		e.unmodelled(st, name)
		for _, a := range args {
			if strings.Contains(a.T, "arrview!") {
				// A13: unknown code might write through the view
				panic(unsupported{"a slice of a local or package-level array is passed to unmodelled code: " + name})
			}
			e.escape(st, a)
		}
		for _, b := range bind {
			e.escape(st, b)
		}
		e.havocAllKeepPrivate(st)
		k(st, e.freshResults(st, fn.Name(), fn.Signature))
		return
	}
	// inline
	if traceInline {
		fmt.Printf("%sinline %s (paths so far %d)\n", strings.Repeat("  ", len(st.frames)), fn.String(), e.pathCount)
	}
	e.inlineCount++
	if e.inlineCount > 200000 {
		panic(unsupported{"inlining budget exceeded (path explosion)"})
	}
	pre := st.clone()
	at := st.items
	outs := e.collectInline(st, fn, args, bind)
	if len(outs) == 0 {
		return // callee never returns on any path
	}
	if len(outs) == 1 {
		k(outs[0].st, resultVal(fn.Signature, outs[0].rets))
		return
	}
	allSame := true
	for _, o := range outs {
		if !sameMem(o.st, pre) || len(o.st.top().defers) != len(pre.top().defers) {
			allSame = false
			break
		}
	}
	if allSame {
		if merged, res, ok := e.mergeOutcomes(at, outs); ok {
			pre.items = merged
			for _, o := range outs {
				for t := range o.st.taint {
					pre.taint[t] = true
				}
			}
			k(pre, resultVal(fn.Signature, res))
			return
		}
	}
	for _, o := range outs {
		o := o
		e.runPath(func() { k(o.st, resultVal(fn.Signature, o.rets)) })
	}
}

func (e *Engine) onStack(st *State, fn *ssa.Function) bool {
	for _, f := range st.frames {
		if f.fn == fn {
			return true
		}
	}
	return false
}

func (e *Engine) unmodelled(st *State, name string) {
	st.taint["unmodelled:"+name] = true
	e.Unmodelled[name] = true
}

func (e *Engine) freshResults(st *State, hint string, sig *types.Signature) *Val {
	rs := sig.Results()
	switch rs.Len() {
	case 0:
		return nil
	case 1:
		return e.freshVal(st, hint+".r", rs.At(0).Type())
	}
	return e.freshVal(st, hint+".r", rs)
}

func (e *Engine) callOpaque(st *State, instr ssa.Instruction, call *ssa.CallCommon, fv *Val, args []*Val, k func(st *State, res *Val)) {
	sig := call.Signature()
	// nil function value?
	if fv.T != "" && !strings.HasPrefix(fv.T, "builtin:") {
		e.emit(st, "nil", e.site(instr, "nilfunc"), not(eq(fv.T, "0")), "called function value is non-nil "+e.posOf(instr.Pos()))
	}
	e.unmodelled(st, "funcvalue:"+e.posOf(instr.Pos()))
	if pn := fnParamName(call.Value); pn != "" && len(st.frames) > 0 && st.frames[0].contract != nil {
		if cls := st.frames[0].contract.FnParamReq[pn]; len(cls) > 0 {
			// evaluated where the call happens: a0.. are the arguments, local
			// variables of the calling function are visible
			env := e.envFor(st, st.top())
			env.useVars = true
			env.old = st.frames[0].entry
			// inside a nested closure: the parameters of the function under
			// verification stay nameable
			for n, v := range st.frames[0].params {
				if _, shadow := env.names[n]; !shadow {
					env.names[n] = v
				}
			}
			for i, a := range args {
				env.names[fmt.Sprintf("a%d", i)] = a
			}
			for i, cl := range cls {
				e.emit(st, "pre", fmt.Sprintf("%s#%d", e.site(instr, "pre@"+pn), i), e.evalBool(env, cl), "guaranteed at every call of "+pn+": "+cl.Text+" "+e.posOf(instr.Pos()))
			}
		}
	}
	pureFn := false
	if pn := fnParamName(call.Value); pn != "" && len(st.frames) > 0 && st.frames[0].contract != nil && st.frames[0].contract.FnParamPure[pn] {
		pureFn = true
		e.Assumed["assumed effect-free: function value "+pn+" (fnparam "+pn+" pure)"] = true
	}
	if !pureFn {
		for _, a := range args {
			e.escape(st, a)
		}
		e.havocAllKeepPrivate(st)
	}
	res := e.freshResults(st, "fv", sig)
	if pn := fnParamName(call.Value); pn != "" && len(st.frames) > 0 && st.frames[0].contract != nil {
		if g := st.frames[0].contract.FnParamCounts[pn]; g != "" {
			// specification-only invocation counter
			e.ghostSet(st, g, sx("+", e.ghostGet(st, g).T, "1"))
		}
	}
	// `fnparam <name> ensures <expr>`: what the verified function assumes
	// about a function-typed parameter (listed as an assumption)
	if pn := fnParamName(call.Value); pn != "" && len(st.frames) > 0 && st.frames[0].contract != nil {
		if cls := st.frames[0].contract.FnParams[pn]; len(cls) > 0 {
			env := &Env{e: e, st: st, sink: st, names: map[string]*Val{}, callArg: true}
			if fn0 := st.frames[0].fn; fn0.Pkg != nil {
				env.pkg = fn0.Pkg.Pkg
			}
			// the parameters of the function under verification may be named
			for n, v := range st.frames[0].params {
				env.names[n] = v
			}
			for i, a := range args {
				env.names[fmt.Sprintf("a%d", i)] = a
			}
			if res != nil {
				if res.Tup != nil {
					for i, r := range res.Tup {
						env.names[fmt.Sprintf("r%d", i)] = r
					}
				} else {
					env.names["r0"] = res
				}
			}
			for _, cl := range cls {
				st.assume(e.evalBool(env, cl))
				e.Assumed["assumed about function parameter "+pn+": "+cl.Text] = true
			}
		}
	}
	k(st, res)
}

// fnParamName: the source name of the function-typed parameter (or captured
// variable) a called function value comes from.
func fnParamName(v ssa.Value) string {
	switch x := v.(type) {
	case *ssa.Parameter:
		return x.Name()
	case *ssa.FreeVar:
		return x.Name()
	case *ssa.UnOp:
		switch y := x.X.(type) {
		case *ssa.FreeVar:
			return y.Name()
		case *ssa.Alloc:
			return y.Comment
		case *ssa.FieldAddr:
			// a func-typed struct field: t.callback(...)
			if pt, ok := y.X.Type().Underlying().(*types.Pointer); ok {
				if st, ok := pt.Elem().Underlying().(*types.Struct); ok {
					return st.Field(y.Field).Name()
				}
			}
		case *ssa.Global:
			return y.Name()
		}
	case *ssa.Field:
		if st, ok := x.X.Type().Underlying().(*types.Struct); ok {
			return st.Field(x.Field).Name()
		}
	}
	return ""
}

// callContract: modular call against the callee's contract.
func (e *Engine) callContract(st *State, instr ssa.Instruction, fn *ssa.Function, c *Contract, args []*Val, k func(st *State, res *Val)) {
	short := fn.Name()
	if fn.Signature.Recv() != nil {
		if fn.Pkg != nil {
			short = fn.RelString(fn.Pkg.Pkg)
		} else if o := fn.Origin(); o != nil && o.Pkg != nil {
			short = stripTypeArgs(o.RelString(o.Pkg.Pkg))
		}
	}
	env := &Env{e: e, st: st, sink: st, names: map[string]*Val{}, callArg: true, tparams: typeParamsOf(fn)}
	if fn.Pkg != nil {
		env.pkg = fn.Pkg.Pkg
	} else if o := fn.Origin(); o != nil && o.Pkg != nil {
		env.pkg = o.Pkg.Pkg
	}
	for i, pn := range paramNames(fn) {
		if i < len(args) {
			env.names[pn] = args[i]
		}
	}
	if c.Pure && len(c.Modifies) == 0 {
		// requires
		for i, rq := range c.Requires {
			e.emit(st, "pre", fmt.Sprintf("%s#%d", e.site(instr, "pre@"+short), i), e.evalBool(env, rq), "requires of "+short+": "+rq.Text+" "+e.posOf(instr.Pos()))
		}
		rs := e.pureContractApp(st, fn, c, args)
		k(st, resultVal(fn.Signature, rs))
		return
	}
	for i, rq := range c.Requires {
		e.emit(st, "pre", fmt.Sprintf("%s#%d", e.site(instr, "pre@"+short), i), e.evalBool(env, rq), "requires of "+short+": "+rq.Text+" "+e.posOf(instr.Pos()))
	}
	if heapModifies(c) && !e.modifiesOnlyPrivate(st, env, c) {
		// the callee may store its arguments into memory it is allowed to
		// modify; harmless when all of that memory is private itself, and
		// impossible for arguments whose type does not fit those locations
		for i, a := range args {
			// a callback the contract says is (only) called: its body is
			// executed by the verifier itself, its bindings reach no unknown code
			called := false
			if i < len(fn.Params) {
				for _, cs := range c.Calls {
					if cs.Param == fn.Params[i].Name() {
						called = true
					}
				}
			}
			if !called && e.storableInto(env, c, a) {
				e.escape(st, a)
			}
		}
	}
	old := st.snapshot()
	env.old = old // `where` clauses of callbacks may refer to the pre-state
	e.applyModifies(st, env, c)
	if c.Trusted {
		e.Assumed["trusted contract: "+fnKey(fn)] = true
	}
	e.contractCalls(st, instr, env, c.Calls, func(st *State, env *Env) {
		var rets []*Val
		rs := fn.Signature.Results()
		for i := 0; i < rs.Len(); i++ {
			rets = append(rets, e.freshVal(st, short+".r", rs.At(i).Type()))
		}
		env.old = old
		env.bindResults(fn, rets)
		for _, en := range c.Ensures {
			if strings.HasPrefix(en.Label, "local-") {
				continue // names locals of the callee: meaningful only in its own proof
			}
			st.assume(e.evalBool(env, en))
		}
		k(st, resultVal(fn.Signature, rets))
	})
}

// pureContractApp models a pure contracted function as an uninterpreted
// function of its arguments whose ensures are assumed for this application.
func (e *Engine) pureContractApp(st *State, fn *ssa.Function, c *Contract, args []*Val) []*Val {
	rs := fn.Signature.Results()
	var asorts, aterms []string
	for _, a := range args {
		asorts = append(asorts, e.sortOf(a.Ty))
		aterms = append(aterms, e.valTerm(a))
	}
	var rets []*Val
	for i := 0; i < rs.Len(); i++ {
		f := quoteSym(fmt.Sprintf("pure$%s$%d", fnKeyShort(fn), i))
		e.declOnce("fun:"+f, fmt.Sprintf("(declare-fun %s (%s) %s)", f, strings.Join(asorts, " "), e.sortOf(rs.At(i).Type())))
		t := f
		if len(aterms) > 0 {
			t = sx(f, aterms...)
		}
		rets = append(rets, &Val{T: t, Ty: rs.At(i).Type()})
	}
	env := &Env{e: e, st: st, sink: st, old: st, names: map[string]*Val{}, callArg: true, tparams: typeParamsOf(fn)}
	if fn.Pkg != nil {
		env.pkg = fn.Pkg.Pkg
	} else if o := fn.Origin(); o != nil && o.Pkg != nil {
		env.pkg = o.Pkg.Pkg
	}
	for i, pn := range paramNames(fn) {
		if i < len(args) {
			env.names[pn] = args[i]
		}
	}
	env.bindResults(fn, rets)
	for _, r := range rets {
		st.assume(e.rangeOf(r.T, r.Ty))
	}
	for _, en := range c.Ensures {
		if strings.HasPrefix(en.Label, "local-") {
			continue // names locals of the callee: meaningful only in its own proof
		}
		st.assume(e.evalBool(env, en))
	}
	if c.Trusted || fn.Blocks == nil {
		e.Assumed["trusted contract: "+fnKey(fn)] = true
	}
	return rets
}

func fnKeyShort(fn *ssa.Function) string {
	if fn.Pkg != nil {
		return fn.Pkg.Pkg.Name() + "." + fn.RelString(fn.Pkg.Pkg)
	}
	return fn.String()
}

// applyModifies havocs the locations named by the modifies clauses.
// Forms: `x.f` (one field of one object), `x.f[*]` / `T.f` (whole component),
// `x[*]` (all elements of slice x), `*` (everything).
func (e *Engine) applyModifies(st *State, env *Env, c *Contract) {
	for _, m := range c.Modifies {
		txt := strings.TrimSpace(m.Text)
		for _, loc := range splitTop(txt, ',') {
			loc = strings.TrimSpace(loc)
			e.havocLoc(st, env, loc)
		}
	}
}

func (e *Engine) havocLoc(st *State, env *Env, loc string) {
	if loc == "*" {
		// everything reachable by the callee; objects still private to the
		// verified function (their references were not passed, see
		// callContract) are out of its reach
		e.havocAllKeepPrivate(st)
		return
	}
	if loc == "" || loc == "nothing" {
		return
	}
	if strings.HasPrefix(loc, "ghost:") {
		e.ghostHavoc(st, strings.TrimPrefix(loc, "ghost:"))
		return
	}
	if strings.HasPrefix(loc, "mview(") && strings.HasSuffix(loc, ")") {
		// the abstract map view of a map-like object (LockedMap, ShardedMap)
		cl, err := parseClause(loc[len("mview(") : len(loc)-1])
		if err != nil {
			panic(err.Error())
		}
		v := env.eval(cl.Expr)
		mv, mvs, mh, mhs, ok := e.mviewComps(v.Ty)
		if !ok {
			panic("spec error: modifies " + loc + ": not a two-parameter map-like type")
		}
		for _, cs := range [][2]string{{mv, mvs}, {mh, mhs}} {
			h := e.heapGet(st, cs[0], cs[1])
			na := e.freshName("havoc")
			inner := strings.TrimSuffix(strings.TrimPrefix(cs[1], "(Array Int "), ")")
			st.declare(na, inner)
			e.heapSet(st, cs[0], cs[1], sx("store", h, v.T, na))
		}
		return
	}
	if strings.HasSuffix(loc, "[*]") {
		base := strings.TrimSuffix(loc, "[*]")
		cl, err := parseClause(base)
		if err != nil {
			panic(err.Error())
		}
		v := env.eval(cl.Expr)
		if strings.Contains(v.T, "arrview!") {
			// A13: a slice of a local / package-level array is a read-only view
			panic(unsupported{"a callee writes through a slice of a local or package-level array"})
		}
		switch t := v.Ty.Underlying().(type) {
		case *types.Slice:
			c, s := e.elemComp(t.Elem())
			h := e.heapGet(st, c, s)
			na := e.freshName("havoc")
			st.declare(na, "(Array Int "+e.sortOf(t.Elem())+")")
			e.heapSet(st, c, s, sx("store", h, sx("sl_reg", v.T), na))
		case *types.Map:
			mv, mvs, mh, mhs := e.mapComps(t)
			ml, mls := e.mapLenComp()
			for _, cs := range [][2]string{{mv, mvs}, {mh, mhs}} {
				h := e.heapGet(st, cs[0], cs[1])
				na := e.freshName("havoc")
				inner := strings.TrimSuffix(strings.TrimPrefix(cs[1], "(Array Int "), ")")
				st.declare(na, inner)
				e.heapSet(st, cs[0], cs[1], sx("store", h, v.T, na))
			}
			h := e.heapGet(st, ml, mls)
			nl := e.freshName("havoclen")
			st.declare(nl, "Int")
			st.assume(sx("<=", "0", nl))
			e.heapSet(st, ml, mls, sx("store", h, v.T, nl))
		default:
			panic(fmt.Sprintf("modifies %s: not a slice or map", loc))
		}
		return
	}
	cl, err := parseClause(loc)
	if err != nil {
		panic(err.Error())
	}
	// x.f : havoc one field of the object x points to
	e.havocExpr(st, env, cl)
}

func (e *Engine) havocExpr(st *State, env *Env, cl *Clause) {
	a := env.addrOfExpr(cl.Expr)
	if a == nil {
		panic(fmt.Sprintf("modifies %s: cannot resolve location", cl.Text))
	}
	var ty types.Type
	if a.Kind == aCell {
		ty = e.typeAfter(a.Cell.ty, a.Path)
	} else {
		ty = e.typeAfter(a.Base, a.Path)
	}
	if a.Kind == aHeap && len(a.Path) == 0 {
		// whole object
		si := e.structInfoOf(a.Base)
		for i := range si.fields {
			na := *a
			na.Path = []pathEl{{Field: i}}
			fv := e.freshVal(st, "havoc", si.ftypes[i])
			e.store(st, &na, fv.T)
		}
		return
	}
	fv := e.freshVal(st, "havoc", ty)
	e.store(st, a, fv.T)
}

// ---- interface method invocation -------------------------------------------

func (e *Engine) ifaceMethodName(fn *types.Func) string {
	recv := fn.Type().(*types.Signature).Recv()
	rn := "?"
	if recv != nil {
		rn = typeKey(recv.Type())
	}
	return "IM$" + rn + "." + fn.Name()
}

// ifaceMethodApp: abstract interface method as an uninterpreted pure function
// of the receiver and arguments (assumption A9).
func (e *Engine) ifaceMethodApp(st *State, m *types.Func, recv *Val, args []*Val) []*Val {
	sig := m.Type().(*types.Signature)
	base := e.ifaceMethodName(m)
	asorts := []string{"Int"}
	aterms := []string{recv.T}
	for _, a := range args {
		asorts = append(asorts, e.sortOf(a.Ty))
		aterms = append(aterms, e.valTerm(a))
	}
	var rets []*Val
	for i := 0; i < sig.Results().Len(); i++ {
		rt := sig.Results().At(i).Type()
		f := quoteSym(fmt.Sprintf("%s$%d", base, i))
		e.declOnce("fun:"+f, fmt.Sprintf("(declare-fun %s (%s) %s)", f, strings.Join(asorts, " "), e.sortOf(rt)))
		if e.rawIface {
			rets = append(rets, &Val{T: sx(f, aterms...), Ty: rt})
			continue
		}
		t := e.named(st, m.Name(), sx(f, aterms...), e.sortOf(rt))
		st.assume(e.rangeOf(t, rt))
		rets = append(rets, &Val{T: t, Ty: rt})
	}
	return rets
}

func (e *Engine) ifaceContract(m *types.Func) *Contract {
	recv := m.Type().(*types.Signature).Recv()
	if recv == nil {
		return nil
	}
	n, ok := types.Unalias(recv.Type()).(*types.Named)
	if !ok || n.Obj().Pkg() == nil {
		return nil
	}
	key := n.Obj().Pkg().Path() + ".(" + n.Obj().Name() + ")." + m.Name()
	return e.Contracts[key]
}

func (e *Engine) invoke(st *State, instr ssa.Instruction, call *ssa.CallCommon, recv *Val, args []*Val, k func(st *State, res *Val)) {
	m := call.Method
	// statically known dynamic type: devirtualise
	if recv.Dyn != nil && recv.Dyn.Clo == nil {
		if fn := e.Prog.LookupMethod(recv.Dyn.Ty, m.Pkg(), m.Name()); fn != nil {
			e.callFunc(st, instr, fn, append([]*Val{recv.Dyn}, args...), nil, call, k)
			return
		}
	}
	e.emit(st, "nil", e.site(instr, "nilrecv"), not(eq(recv.T, "0")), "interface receiver of "+m.Name()+" is non-nil "+e.posOf(instr.Pos()))
	e.callSiteReqsNamed(st, instr, m.Name(), true, append([]*Val{recv}, args...))
	if c := e.ifaceContract(m); c != nil {
		e.callIfaceContract(st, instr, m, c, recv, args, k)
		return
	}
	pk := ""
	if m.Pkg() != nil {
		pk = m.Pkg().Path()
	}
	if isEffectFreePkg(pk) {
		k(st, e.freshResults(st, m.Name(), m.Type().(*types.Signature)))
		return
	}
	if m.Name() == "Error" && pk == "" {
		k(st, e.freshResults(st, "Error", m.Type().(*types.Signature)))
		return
	}
	// an abstract method that receives function values may call them: it is
	// not a pure getter.  Without a contract: the closures may have run any
	// number of times and anything reachable may have changed.
	hasFunc := false
	for _, a := range args {
		if a.Clo != nil {
			hasFunc = true
		} else if a.Ty != nil {
			if _, ok := a.Ty.Underlying().(*types.Signature); ok {
				hasFunc = true
			}
		}
	}
	if hasFunc {
		e.unmodelled(st, "interface method with callbacks: "+strings.TrimPrefix(e.ifaceMethodName(m), "IM$"))
		for _, a := range args {
			if a.Clo != nil {
				e.closureHavoc(st, a.Clo)
			}
			e.escape(st, a)
		}
		e.havocAllKeepPrivate(st)
		k(st, e.freshResults(st, m.Name(), m.Type().(*types.Signature)))
		return
	}
	rets := e.ifaceMethodApp(st, m, recv, args)
	e.Assumed["A9 interface method pure+stable: "+strings.TrimPrefix(e.ifaceMethodName(m), "IM$")] = true
	k(st, resultVal(m.Type().(*types.Signature), rets))
}

func (e *Engine) callIfaceContract(st *State, instr ssa.Instruction, m *types.Func, c *Contract, recv *Val, args []*Val, k func(st *State, res *Val)) {
	sig := m.Type().(*types.Signature)
	env := &Env{e: e, st: st, sink: st, names: map[string]*Val{}, callArg: true}
	env.pkg = m.Pkg()
	env.names["self"] = recv
	// type parameters of a generic interface: from the receiver's type arguments
	if n, ok := types.Unalias(recv.Ty).(*types.Named); ok && n.TypeArgs() != nil && n.Origin().TypeParams() != nil {
		env.tparams = map[string]types.Type{}
		for i := 0; i < n.TypeArgs().Len() && i < n.Origin().TypeParams().Len(); i++ {
			env.tparams[n.Origin().TypeParams().At(i).Obj().Name()] = n.TypeArgs().At(i)
		}
	}
	for i := 0; i < sig.Params().Len(); i++ {
		n := sig.Params().At(i).Name()
		if n == "" || n == "_" {
			n = fmt.Sprintf("a%d", i)
		}
		env.names[n] = args[i]
		env.names[fmt.Sprintf("a%d", i)] = args[i]
	}
	short := "(" + strings.TrimPrefix(c.Name, "(")
	for i, rq := range c.Requires {
		e.emit(st, "pre", fmt.Sprintf("%s#%d", e.site(instr, "pre@"+short), i), e.evalBool(env, rq), "requires of "+short+": "+rq.Text+" "+e.posOf(instr.Pos()))
	}
	old := st.snapshot()
	env.old = old
	e.Assumed["interface contract (A9): "+c.Key] = true
	if !c.Pure {
		e.applyModifies(st, env, c)
	}
	e.contractCalls(st, instr, env, c.Calls, func(st *State, env *Env) {
		var rets []*Val
		if c.Pure && len(c.Calls) == 0 {
			rets = e.ifaceMethodApp(st, m, recv, args)
		} else {
			for i := 0; i < sig.Results().Len(); i++ {
				rets = append(rets, e.freshVal(st, m.Name()+".r", sig.Results().At(i).Type()))
			}
		}
		env.old = old
		for i, r := range rets {
			env.names[fmt.Sprintf("r%d", i)] = r
			if n := sig.Results().At(i).Name(); n != "" && n != "_" {
				env.names[n] = r
			}
		}
		for _, en := range c.Ensures {
			if strings.HasPrefix(en.Label, "local-") {
				continue // names locals of the callee: meaningful only in its own proof
			}
			st.assume(e.evalBool(env, en))
		}
		k(st, resultVal(sig, rets))
	})
}

// ---- defers ------------------------------------------------------------------

func (e *Engine) runDefers(st *State, k func(st *State)) {
	fr := st.top()
	if len(fr.defers) == 0 {
		k(st)
		return
	}
	d := fr.defers[len(fr.defers)-1]
	fr.defers = fr.defers[:len(fr.defers)-1]
	cont := func(st *State, _ *Val) { e.runDefers(st, k) }
	if d.call.IsInvoke() {
		e.invoke(st, d.instr, d.call, d.fnv, d.args, cont)
		return
	}
	if b, ok := d.call.Value.(*ssa.Builtin); ok {
		e.builtin(st, d.instr, b, d.call, d.args)
		cont(st, nil)
		return
	}
	if d.fnv == nil || d.fnv.Clo == nil {
		e.callOpaque(st, d.instr, d.call, &Val{}, d.args, cont)
		return
	}
	e.callFunc(st, d.instr, d.fnv.Clo.Fn, d.args, d.fnv.Clo.Bind, d.call, cont)
}
