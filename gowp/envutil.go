package gowp

// sinkOr: the state that receives definitions produced while evaluating a
// specification (the live path state, also when reading an old snapshot).
func (env *Env) sinkOr() *State {
	if env.sink != nil {
		return env.sink
	}
	return env.st
}
