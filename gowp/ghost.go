package gowp

import (
	"fmt"
	"go/types"

	"golang.org/x/tools/go/ssa"
)

// GhostSpec: `//@ ghost <name> <sort>` — specification-only state (e.g. the
// set of heights saved so far) that interface contracts may read and update.
type GhostSpec struct {
	Name string
	Sort string // spec sort keyword: int | bool | intset | ...
	Pkg  string
}

func resolveOpt(resolve func(ssa.Value) *Val, v ssa.Value) (r *Val) {
	defer func() {
		if x := recover(); x != nil {
			if _, ok := x.(unsupported); ok {
				r = nil
				return
			}
			panic(x)
		}
	}()
	return resolve(v)
}

func (e *Engine) ghostSpec(name string) *GhostSpec {
	for _, g := range e.Ghosts {
		if g.Name == name {
			return g
		}
	}
	return nil
}

func (e *Engine) ghostSort(name string) (string, types.Type) {
	g := e.ghostSpec(name)
	if g == nil {
		return "Int", tInt
	}
	env := e.specEnv(g.Pkg)
	return e.specSort(env, g.Sort)
}

// ghostGet: current value of a ghost variable in a state.
func (e *Engine) ghostGet(st *State, name string) *Val {
	srt, ty := e.ghostSort(name)
	if t, ok := st.ghost["g:"+name]; ok {
		return &Val{T: t, Ty: ty}
	}
	n := quoteSym("ghost$" + name + "@" + st.ghost["$epoch0"])
	e.declOnce("const:"+n, fmt.Sprintf("(declare-const %s %s)", n, srt))
	st.ghost["g:"+name] = n
	return &Val{T: n, Ty: ty}
}

func (e *Engine) ghostSet(st *State, name, term string) {
	srt, _ := e.ghostSort(name)
	n := e.freshName("ghost$" + name)
	st.declare(n, srt)
	st.define(eq(n, term))
	st.ghost["g:"+name] = n
}

func (e *Engine) ghostHavoc(st *State, name string) {
	srt, _ := e.ghostSort(name)
	n := e.freshName("ghost$" + name)
	st.declare(n, srt)
	st.ghost["g:"+name] = n
}
