package gowp

import (
	"fmt"
	"os"
	"path/filepath"
	"regexp"
	"strconv"
	"strings"
)

// Bounded stand-ins: a function that is outside the verifier's reach
// (goroutines, channels) keeps a trusted contract for the proofs of its
// callers; the real function is run against that contract on an enumerated
// input space with a stated bound. Reported as bounded, never as proved.
//
// A bounded check is an in-package Go test under <verif>/bounded/<name>_test.go
// (func TestVerifReplay) injected with -overlay; it prints
//   VERIF-BOUNDED cases=<n> failed=<m> bound=<text>
//   VERIF-BOUNDED-FAIL <what failed>      (first few failures)
var reBounded = regexp.MustCompile(`VERIF-BOUNDED cases=(\d+) failed=(\d+) bound=(.*)`)

func init() {
	RunBounded = func(e *Engine, opt Options, id, name string) (BoundedCheck, []string) {
		file := filepath.Join(opt.VerifDir, "bounded", id+"_"+name+"_test.go")
		if _, err := os.Stat(file); err != nil {
			// shared between properties
			file = filepath.Join(opt.VerifDir, "bounded", name+"_test.go")
		}
		out, err := RunReplayFile(opt.RepoDir, file)
		bc := BoundedCheck{Function: name, Bound: "?"}
		m := reBounded.FindStringSubmatch(out)
		if m == nil {
			msg := "bounded check " + name + " did not run"
			if err != nil {
				msg += ": " + err.Error()
			}
			return bc, []string{msg + " " + firstLines(out, 5)}
		}
		bc.Cases, _ = strconv.Atoi(m[1])
		bc.Failed, _ = strconv.Atoi(m[2])
		bc.Bound = strings.TrimSpace(m[3])
		var fails []string
		if bc.Failed > 0 || bc.Cases == 0 {
			var fl []string
			for _, l := range strings.Split(out, "\n") {
				if strings.Contains(l, "VERIF-BOUNDED-FAIL") {
					fl = append(fl, strings.TrimSpace(strings.SplitN(l, "VERIF-BOUNDED-FAIL", 2)[1]))
				}
			}
			fails = append(fails, fmt.Sprintf("bounded check %s: %d of %d cases fail (%s): %s [replay: %s]", name, bc.Failed, bc.Cases, bc.Bound, strings.Join(fl, " | "), file))
		}
		return bc, fails
	}
}

func firstLines(s string, n int) string {
	ls := strings.Split(s, "\n")
	if len(ls) > n {
		ls = ls[:n]
	}
	return strings.Join(ls, " / ")
}
