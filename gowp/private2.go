package gowp

import (
	"go/types"
	"strings"
)

// modifiesOnlyPrivate: every location in the contract's modifies clauses
// belongs to an object that is still private to the verified function (so
// the callee storing its arguments there leaks nothing).
func (e *Engine) modifiesOnlyPrivate(st *State, env *Env, c *Contract) bool {
	if len(st.priv) == 0 {
		return false
	}
	for _, m := range c.Modifies {
		for _, loc := range splitTop(m.Text, ',') {
			loc = strings.TrimSpace(loc)
			if loc == "" || loc == "nothing" || strings.HasPrefix(loc, "ghost:") {
				continue
			}
			if !strings.HasSuffix(loc, "[*]") {
				return false
			}
			cl, err := parseClause(strings.TrimSuffix(loc, "[*]"))
			if err != nil {
				return false
			}
			ok := func() (ok bool) {
				defer func() {
					if recover() != nil {
						ok = false
					}
				}()
				v := env.eval(cl.Expr)
				switch v.Ty.Underlying().(type) {
				case *types.Slice:
					return e.isPrivateRef(st, sx("sl_reg", v.T))
				case *types.Map:
					return e.isPrivateRef(st, v.T)
				}
				return false
			}()
			if !ok {
				return false
			}
		}
	}
	return true
}
