package gowp

import (
	"bytes"
	"encoding/json"
	"fmt"
	"go/types"
	"os"
	"os/exec"
	"path/filepath"
	"regexp"
	"sort"
	"strconv"
	"strings"

	"golang.org/x/tools/go/ssa"
)

// Watch: a term whose model value is needed for replay.
type Watch struct {
	Label string // p0.., r0..
	Term  string
	Ty    types.Type
}

type replayInfo struct {
	fn      *ssa.Function
	params  []Watch
	results []Watch
	heap    map[string]string // element components at entry (for slices)
	bv      bool
}

func init() {
	tryReplay = replayGeneric
}

// ---- s-expression parsing of model values ----------------------------------

type sexp struct {
	atom string
	list []*sexp
	str  bool
}

func parseSexp(s string) (*sexp, string) {
	s = strings.TrimLeft(s, " \t\r\n")
	if s == "" {
		return nil, ""
	}
	if s[0] == '(' {
		s = s[1:]
		n := &sexp{list: []*sexp{}}
		for {
			s = strings.TrimLeft(s, " \t\r\n")
			if s == "" {
				return n, ""
			}
			if s[0] == ')' {
				return n, s[1:]
			}
			var c *sexp
			c, s = parseSexp(s)
			if c == nil {
				return n, s
			}
			n.list = append(n.list, c)
		}
	}
	if s[0] == '"' {
		i := 1
		var b strings.Builder
		for i < len(s) {
			if s[i] == '"' {
				if i+1 < len(s) && s[i+1] == '"' {
					b.WriteByte('"')
					i += 2
					continue
				}
				break
			}
			b.WriteByte(s[i])
			i++
		}
		return &sexp{atom: unescapeSMT(b.String()), str: true}, s[i+1:]
	}
	if s[0] == '|' {
		j := strings.IndexByte(s[1:], '|')
		return &sexp{atom: s[:j+2]}, s[j+2:]
	}
	i := 0
	for i < len(s) && !strings.ContainsRune(" \t\r\n()", rune(s[i])) {
		i++
	}
	return &sexp{atom: s[:i]}, s[i:]
}

var reUni = regexp.MustCompile(`\\u\{([0-9a-fA-F]+)\}`)

func unescapeSMT(s string) string {
	return reUni.ReplaceAllStringFunc(s, func(m string) string {
		v, _ := strconv.ParseUint(reUni.FindStringSubmatch(m)[1], 16, 32)
		return string([]byte{byte(v)})
	})
}

func (x *sexp) String() string {
	if x.list == nil {
		if x.str {
			return smtString(x.atom)
		}
		return x.atom
	}
	var ps []string
	for _, c := range x.list {
		ps = append(ps, c.String())
	}
	return "(" + strings.Join(ps, " ") + ")"
}

// intOf parses 5, (- 5), #x.., #b..
func intOf(x *sexp) (string, bool) {
	if x.list != nil {
		if len(x.list) == 2 && x.list[0].atom == "-" {
			v, ok := intOf(x.list[1])
			return "-" + v, ok
		}
		return "", false
	}
	if strings.HasPrefix(x.atom, "#x") {
		v, err := strconv.ParseUint(x.atom[2:], 16, 64)
		return fmt.Sprint(v), err == nil
	}
	if strings.HasPrefix(x.atom, "#b") {
		v, err := strconv.ParseUint(x.atom[2:], 2, 64)
		return fmt.Sprint(v), err == nil
	}
	if _, err := strconv.ParseUint(x.atom, 10, 64); err == nil {
		return x.atom, true
	}
	// big values: keep decimal text
	for _, c := range x.atom {
		if c < '0' || c > '9' {
			return "", false
		}
	}
	return x.atom, x.atom != ""
}

// valueToJSON converts a model value of Go type t to a JSON-able tree.
func (e *Engine) valueToJSON(x *sexp, t types.Type, elems func(reg, off, n int64, et types.Type) ([]interface{}, bool)) (interface{}, bool) {
	t = types.Unalias(t)
	if si := e.structInfoOf(t); si != nil {
		if len(si.fields) == 0 {
			return []interface{}{}, true
		}
		if x.list == nil || len(x.list) != len(si.fields)+1 {
			return nil, false
		}
		var out []interface{}
		for i, ft := range si.ftypes {
			v, ok := e.valueToJSON(x.list[i+1], ft, elems)
			if !ok {
				return nil, false
			}
			out = append(out, v)
		}
		return out, true
	}
	if isErrorType(t) {
		v, ok := intOf(x)
		if !ok {
			return nil, false
		}
		return map[string]interface{}{"err": v != "0"}, true
	}
	switch u := t.Underlying().(type) {
	case *types.Basic:
		switch {
		case u.Info()&types.IsBoolean != 0:
			return x.atom == "true", true
		case u.Info()&types.IsInteger != 0:
			v, ok := intOf(x)
			if !ok {
				return nil, false
			}
			if e.bv && u.Info()&types.IsUnsigned == 0 {
				// two's complement
				uv, _ := strconv.ParseUint(v, 10, 64)
				bits := intBits(u)
				if bits < 64 && uv >= 1<<uint(bits-1) {
					return fmt.Sprint(int64(uv) - int64(1)<<uint(bits)), true
				}
				if bits == 64 {
					return fmt.Sprint(int64(uv)), true
				}
			}
			return v, true
		case u.Info()&types.IsString != 0:
			if !x.str {
				return nil, false
			}
			return map[string]interface{}{"s": x.atom}, true
		case u.Info()&types.IsFloat != 0:
			// (fp #b0 #b... #b...) or special
			if x.list != nil && len(x.list) == 4 && x.list[0].atom == "fp" {
				bits := strings.TrimPrefix(x.list[1].atom, "#b") + binOf(x.list[2].atom) + binOf(x.list[3].atom)
				v, err := strconv.ParseUint(bits, 2, 64)
				if err != nil {
					return nil, false
				}
				return map[string]interface{}{"fbits": fmt.Sprint(v)}, true
			}
			if x.list != nil && len(x.list) == 4 && x.list[0].atom == "_" {
				switch x.list[1].atom {
				case "+zero":
					return map[string]interface{}{"fbits": "0"}, true
				case "-zero":
					return map[string]interface{}{"fbits": fmt.Sprint(uint64(1) << 63)}, true
				case "+oo":
					return map[string]interface{}{"fbits": fmt.Sprint(uint64(0x7ff0000000000000))}, true
				case "-oo":
					return map[string]interface{}{"fbits": fmt.Sprint(uint64(0xfff0000000000000))}, true
				case "NaN":
					return map[string]interface{}{"fbits": fmt.Sprint(uint64(0x7ff8000000000001))}, true
				}
			}
			return nil, false
		}
	case *types.Slice:
		if x.list == nil || len(x.list) != 5 || elems == nil {
			return nil, false
		}
		reg, ok1 := intOf(x.list[1])
		off, ok2 := intOf(x.list[2])
		ln, ok3 := intOf(x.list[3])
		if !ok1 || !ok2 || !ok3 {
			return nil, false
		}
		r, _ := strconv.ParseInt(reg, 10, 64)
		o, _ := strconv.ParseInt(off, 10, 64)
		n, err := strconv.ParseInt(ln, 10, 64)
		if err != nil || n > 4096 {
			return nil, false
		}
		if r == 0 {
			return map[string]interface{}{"nil": true}, true
		}
		es, ok := elems(r, o, n, u.Elem())
		if !ok {
			return nil, false
		}
		return map[string]interface{}{"elems": es}, true
	}
	return nil, false
}

func binOf(a string) string {
	if strings.HasPrefix(a, "#b") {
		return a[2:]
	}
	if strings.HasPrefix(a, "#x") {
		var b strings.Builder
		for _, c := range a[2:] {
			v, _ := strconv.ParseUint(string(c), 16, 8)
			fmt.Fprintf(&b, "%04b", v)
		}
		return b.String()
	}
	return a
}

// ---- generic replay ------------------------------------------------------------

func isErrorType(t types.Type) bool {
	return types.Identical(types.Unalias(t), types.Universe.Lookup("error").Type())
}

func replayable(t types.Type, depth int) bool {
	t = types.Unalias(t)
	if depth > 5 {
		return false
	}
	if isErrorType(t) {
		return true
	}
	switch u := t.Underlying().(type) {
	case *types.Basic:
		return u.Info()&(types.IsBoolean|types.IsInteger|types.IsString|types.IsFloat) != 0
	case *types.Struct:
		for i := 0; i < u.NumFields(); i++ {
			if !replayable(u.Field(i).Type(), depth+1) {
				return false
			}
		}
		return true
	case *types.Slice:
		return replayable(u.Elem(), depth+1)
	}
	return false
}

func (e *Engine) goTypeString(t types.Type, self *types.Package, imports map[string]string) string {
	return types.TypeString(t, func(p *types.Package) string {
		if p == self {
			return ""
		}
		imports[p.Path()] = p.Name()
		return p.Name()
	})
}

func replayGeneric(e *Engine, opt Options, id string, g *Group) (ReplayResult, bool) {
	o := g.Worst
	if o == nil || o.replay == nil {
		return ReplayResult{}, false
	}
	ri := o.replay
	fn := ri.fn
	if fn.Pkg == nil {
		return ReplayResult{}, false
	}
	for _, w := range ri.params {
		if !replayable(w.Ty, 0) {
			return ReplayResult{Output: "no generic replay: parameter " + w.Label + " of type " + w.Ty.String() + " cannot be built from a model"}, true
		}
	}
	expectPanic := o.Kind != "post" && o.Kind != "frame"
	if !expectPanic {
		for _, w := range ri.results {
			if !replayable(w.Ty, 0) {
				return ReplayResult{Output: "no generic replay: result of type " + w.Ty.String()}, true
			}
		}
	}
	// phase 1: values of params/results
	all := append(append([]Watch{}, ri.params...), ri.results...)
	var terms []string
	for _, w := range all {
		terms = append(terms, w.Term)
	}
	base := strings.TrimSuffix(strings.TrimSpace(o.Query), "(get-model)")
	// recursive spec functions are uninterpreted in proofs; for a faithful
	// counterexample give them their real definition (and prefer small
	// slices), falling back to the proof query's own model
	var r1 SolverResult
	if len(e.recInfo) > 0 {
		rb := e.groundRec(base, 8)
		used := rb != base
		if used {
			var small []string
			for _, w := range ri.params {
				if sl, ok := w.Ty.Underlying().(*types.Slice); ok {
					small = append(small, fmt.Sprintf("(assert (<= (sl_len %s) 6))", w.Term))
					// elements are values of their Go type
					e.bv = ri.bv
					c, _ := e.elemComp(sl.Elem())
					h, ok := ri.heap[c]
					if !ok {
						h = quoteSym(strings.Trim(c, "|") + "@0")
					}
					for k := 0; k < 6; k++ {
						el := fmt.Sprintf("(select (select %s (sl_reg %s)) (+ (sl_off %s) %d))", h, w.Term, w.Term, k)
						if r := e.rangeOf(el, sl.Elem()); r != "true" {
							small = append(small, "(assert "+r+")")
						}
					}
				}
			}
			rb = strings.Replace(rb, "(check-sat)", strings.Join(small, "\n")+"\n(check-sat)", 1)
			q0 := rb + "\n(get-value (" + strings.Join(terms, " ") + "))\n"
			dumpQuery(filepath.Join(opt.VerifDir, "out", id), "replaysearch_"+strings.TrimPrefix(o.Name, id+"/"), q0)
			r1 = Solve(q0, e.TimeoutMs, "")
			if r1.Status == "sat" {
				base = rb
			}
		}
	}
	if r1.Status != "sat" {
		// prefer a model whose slice elements are values of their Go type
		// (heap cells not read by the code are otherwise unconstrained)
		var rng []string
		e.bv = ri.bv
		for _, w := range ri.params {
			if sl, ok := w.Ty.Underlying().(*types.Slice); ok {
				c, _ := e.elemComp(sl.Elem())
				h := quoteSym(strings.Trim(c, "|") + "@0")
				if !strings.Contains(base, h) {
					continue
				}
				qv := quoteSym("q$e")
				if r := e.rangeOf(fmt.Sprintf("(select (select %s (sl_reg %s)) %s)", h, w.Term, qv), sl.Elem()); r != "true" {
					rng = append(rng, fmt.Sprintf("(assert (forall ((%s Int)) %s))", qv, r))
					rng = append(rng, fmt.Sprintf("(assert (<= (sl_len %s) 64))", w.Term))
				}
			}
		}
		if len(rng) > 0 {
			rb := strings.Replace(base, "(check-sat)", strings.Join(rng, "\n")+"\n(check-sat)", 1)
			q0 := rb + "\n(get-value (" + strings.Join(terms, " ") + "))\n"
			r1 = Solve(q0, e.TimeoutMs, "")
			if r1.Status == "sat" {
				base = rb
			}
		}
	}
	q1 := base + "\n(get-value (" + strings.Join(terms, " ") + "))\n"
	if r1.Status != "sat" {
		r1 = Solve(q1, e.TimeoutMs, o.Result.Backend)
	}
	if r1.Status != "sat" {
		r1 = Solve(q1, e.TimeoutMs, "")
	}
	if r1.Status != "sat" {
		return ReplayResult{Output: "model values unavailable: " + r1.Status}, true
	}
	vals, _ := parseSexp(r1.Model)
	if vals == nil || len(vals.list) != len(all) {
		return ReplayResult{Output: "cannot parse model values: " + r1.Model}, true
	}
	// element fetcher (phase 2 queries, pinned to the phase-1 values)
	var pins []string
	for i, w := range all {
		if i < len(ri.params) {
			pins = append(pins, fmt.Sprintf("(assert (= %s %s))", w.Term, vals.list[i].list[1].String()))
		}
	}
	e.bv = ri.bv
	var elems func(reg, off, n int64, et types.Type) ([]interface{}, bool)
	elems = func(reg, off, n int64, et types.Type) ([]interface{}, bool) {
		if n == 0 {
			return []interface{}{}, true
		}
		c, _ := e.elemComp(et)
		h, ok := ri.heap[c]
		if !ok {
			h = quoteSym(strings.Trim(c, "|") + "@0")
		}
		var ts []string
		for i := int64(0); i < n; i++ {
			ts = append(ts, fmt.Sprintf("(select (select %s %d) %d)", h, reg, off+i))
		}
		q2 := base + "\n" + strings.Join(pins, "\n") + "\n(check-sat)\n(get-value (" + strings.Join(ts, " ") + "))\n"
		q2 = strings.Replace(q2, "(check-sat)\n", "", 1)
		r2 := Solve(q2, e.TimeoutMs, "")
		if r2.Status != "sat" {
			return nil, false
		}
		ev, _ := parseSexp(r2.Model)
		if ev == nil || int64(len(ev.list)) != n {
			return nil, false
		}
		var out []interface{}
		for _, x := range ev.list {
			v, ok := e.valueToJSON(x.list[1], et, elems)
			if !ok {
				return nil, false
			}
			out = append(out, v)
		}
		return out, true
	}
	var jv []interface{}
	for i, w := range all {
		v, ok := e.valueToJSON(vals.list[i].list[1], w.Ty, elems)
		if !ok {
			return ReplayResult{Output: "cannot convert model value of " + w.Label + ": " + vals.list[i].String()}, true
		}
		jv = append(jv, v)
	}
	// generate the test
	self := fn.Pkg.Pkg
	imports := map[string]string{}
	var b strings.Builder
	var decl, call strings.Builder
	np := len(ri.params)
	for i, w := range ri.params {
		js, _ := json.Marshal(jv[i])
		fmt.Fprintf(&decl, "\tvar p%d %s\n\tverifFill(reflect.ValueOf(&p%d).Elem(), verifJSON(%s))\n", i, e.goTypeString(w.Ty, self, imports), i, strconv.Quote(string(js)))
	}
	var args []string
	start := 0
	recv := fn.Signature.Recv()
	if recv != nil {
		start = 1
	}
	for i := start; i < np; i++ {
		a := fmt.Sprintf("p%d", i)
		if fn.Signature.Variadic() && i == np-1 {
			a += "..."
		}
		args = append(args, a)
	}
	name := fn.Name()
	if recv != nil {
		fmt.Fprintf(&call, "p0.%s(%s)", name, strings.Join(args, ", "))
	} else {
		fmt.Fprintf(&call, "%s(%s)", name, strings.Join(args, ", "))
	}
	nres := fn.Signature.Results().Len()
	var lhs []string
	for i := 0; i < nres; i++ {
		lhs = append(lhs, fmt.Sprintf("r%d", i))
	}
	var want []string
	for i := range ri.results {
		js, _ := json.Marshal(jv[np+i])
		want = append(want, string(js))
	}
	wantJS, _ := json.Marshal(want)
	rel, _ := filepath.Rel(e.RepoDir, filepath.Dir(e.Fset.Position(fn.Pos()).Filename))
	fmt.Fprintf(&b, "// verif-replay pkg=./%s property=%s obligation=%s\n// %s\n// Generated by gowp from a solver counterexample: the inputs below are the model's\n// inputs; the test reports REPRODUCED when the real function behaves as the model\n// predicts (which violates the obligation).\n\npackage %s\n\n", rel, id, o.Name, strings.ReplaceAll(o.Desc, "\n", " "), self.Name())
	b.WriteString("import (\n\t\"encoding/json\"\n\t\"fmt\"\n\t\"math\"\n\t\"reflect\"\n\t\"strconv\"\n\t\"testing\"\n\t\"unsafe\"\n")
	var ips []string
	for p := range imports {
		ips = append(ips, p)
	}
	sort.Strings(ips)
	// imports are collected while printing types, so print the body first
	body := &strings.Builder{}
	fmt.Fprintf(body, "func TestVerifReplay(t *testing.T) {\n%s", decl.String())
	fmt.Fprintf(body, "\texpectPanic := %v\n\twant := %s\n", expectPanic, strconv.Quote(string(wantJS)))
	fmt.Fprintf(body, "\tdefer func() {\n\t\tif r := recover(); r != nil {\n\t\t\tif expectPanic {\n\t\t\t\tfmt.Printf(\"VERIF-REPLAY REPRODUCED panic: %%v\\n\", r)\n\t\t\t\treturn\n\t\t\t}\n\t\t\tfmt.Printf(\"VERIF-REPLAY NOT-REPRODUCED unexpected panic: %%v\\n\", r)\n\t\t}\n\t}()\n")
	if nres > 0 {
		fmt.Fprintf(body, "\t%s := %s\n", strings.Join(lhs, ", "), call.String())
	} else {
		fmt.Fprintf(body, "\t%s\n", call.String())
	}
	fmt.Fprintf(body, "\tif expectPanic {\n\t\tfmt.Println(\"VERIF-REPLAY NOT-REPRODUCED no panic\")\n\t\treturn\n\t}\n")
	fmt.Fprintf(body, "\tvar got []string\n")
	for i := 0; i < nres; i++ {
		fmt.Fprintf(body, "\tgot = append(got, verifDump(reflect.ValueOf(&r%d).Elem()))\n", i)
	}
	fmt.Fprintf(body, "\tgj, _ := json.Marshal(got)\n\tif string(gj) == want {\n\t\tfmt.Printf(\"VERIF-REPLAY REPRODUCED outputs=%%s\\n\", gj)\n\t} else {\n\t\tfmt.Printf(\"VERIF-REPLAY NOT-REPRODUCED got=%%s want=%%s\\n\", gj, want)\n\t}\n}\n\n")
	ips = ips[:0]
	for p := range imports {
		ips = append(ips, p)
	}
	sort.Strings(ips)
	for _, p := range ips {
		fmt.Fprintf(&b, "\t%s %q\n", imports[p], p)
	}
	b.WriteString(")\n\nvar _ = math.Float64frombits\nvar _ = strconv.Itoa\nvar _ unsafe.Pointer\n\n")
	b.WriteString(body.String())
	b.WriteString(replayHelpers)
	dir := filepath.Join(opt.VerifDir, "replays", id)
	_ = os.MkdirAll(dir, 0o755)
	file := filepath.Join(dir, sanitize(strings.TrimPrefix(o.Name, id+"/"))+"_test.go")
	_ = os.WriteFile(file, []byte(b.String()), 0o644)
	out, _ := RunReplayFile(opt.RepoDir, file)
	rep := strings.Contains(out, "VERIF-REPLAY REPRODUCED")
	return ReplayResult{Reproduced: rep, File: file, Output: out}, true
}

var rePkg = regexp.MustCompile(`verif-replay pkg=(\S+)`)

// RunReplayFile injects a generated in-package test with -overlay and runs it.
func RunReplayFile(repo, file string) (string, error) {
	data, err := os.ReadFile(file)
	if err != nil {
		return "", err
	}
	m := rePkg.FindSubmatch(data)
	if m == nil {
		return "", fmt.Errorf("%s: no verif-replay header", file)
	}
	pkg := string(m[1])
	tmp, err := os.MkdirTemp("", "vreplay")
	if err != nil {
		return "", err
	}
	defer os.RemoveAll(tmp)
	target := filepath.Join(repo, pkg, "zz_verif_replay_test.go")
	ov, _ := json.Marshal(map[string]interface{}{"Replace": map[string]string{target: file}})
	ovf := filepath.Join(tmp, "ov.json")
	_ = os.WriteFile(ovf, ov, 0o644)
	// in-tree _test.go files need the repository's own `test` tag to compile
	tags := "test verif"
	if bytes.Contains(data, []byte("verif-replay-tags=verif")) {
		tags = "verif"
	}
	cmd := exec.Command("go", "test", "-tags", tags, "-overlay", ovf, "-vet=off", "-count=1", "-timeout", "120s", "-run", "^TestVerifReplay$", "-v", pkg)
	cmd.Dir = repo
	cmd.Env = append(os.Environ(), "GOFLAGS=-mod=mod", "GOPROXY=off", "GOSUMDB=off", "GOTOOLCHAIN=local")
	var out bytes.Buffer
	cmd.Stdout = &out
	cmd.Stderr = &out
	err = cmd.Run()
	var keep []string
	for _, l := range strings.Split(out.String(), "\n") {
		if strings.Contains(l, "VERIF-REPLAY") || strings.Contains(l, "VERIF-BOUNDED") || strings.Contains(l, "FAIL") || strings.Contains(l, "panic") || strings.Contains(l, "error") || strings.Contains(l, ".go:") {
			keep = append(keep, strings.TrimSpace(l))
		}
	}
	if len(keep) > 30 {
		keep = keep[:30]
	}
	return strings.Join(keep, "\n"), err
}

const replayHelpers = `
func verifJSON(s string) interface{} {
	var v interface{}
	if err := json.Unmarshal([]byte(s), &v); err != nil {
		panic(err)
	}
	return v
}

func verifSettable(v reflect.Value) reflect.Value {
	if v.CanSet() {
		return v
	}
	return reflect.NewAt(v.Type(), unsafe.Pointer(v.UnsafeAddr())).Elem()
}

// verifFill builds a Go value (including unexported fields) from the model.
func verifFill(v reflect.Value, j interface{}) {
	v = verifSettable(v)
	switch v.Kind() {
	case reflect.Struct:
		fs := j.([]interface{})
		for i := 0; i < v.NumField(); i++ {
			verifFill(v.Field(i), fs[i])
		}
	case reflect.Bool:
		v.SetBool(j.(bool))
	case reflect.Int, reflect.Int8, reflect.Int16, reflect.Int32, reflect.Int64:
		n, err := strconv.ParseInt(j.(string), 10, 64)
		if err != nil {
			panic(err)
		}
		v.SetInt(n)
	case reflect.Uint, reflect.Uint8, reflect.Uint16, reflect.Uint32, reflect.Uint64, reflect.Uintptr:
		n, err := strconv.ParseUint(j.(string), 10, 64)
		if err != nil {
			panic(err)
		}
		v.SetUint(n)
	case reflect.String:
		v.SetString(j.(map[string]interface{})["s"].(string))
	case reflect.Float64, reflect.Float32:
		n, _ := strconv.ParseUint(j.(map[string]interface{})["fbits"].(string), 10, 64)
		v.SetFloat(math.Float64frombits(n))
	case reflect.Slice:
		m := j.(map[string]interface{})
		if m["nil"] != nil {
			return
		}
		es := m["elems"].([]interface{})
		s := reflect.MakeSlice(v.Type(), len(es), len(es))
		for i := range es {
			verifFill(s.Index(i), es[i])
		}
		v.Set(s)
	case reflect.Interface:
		if m, ok := j.(map[string]interface{}); ok && m["err"] == true {
			v.Set(reflect.ValueOf(fmt.Errorf("error from the model")))
		}
	default:
		panic("verifFill: unsupported kind " + v.Kind().String())
	}
}

// verifDump prints a value in the same shape the model values are converted to.
func verifDump(v reflect.Value) string {
	j, _ := json.Marshal(verifTree(v))
	return string(j)
}

func verifTree(v reflect.Value) interface{} {
	switch v.Kind() {
	case reflect.Struct:
		out := []interface{}{}
		for i := 0; i < v.NumField(); i++ {
			out = append(out, verifTree(v.Field(i)))
		}
		return out
	case reflect.Bool:
		return v.Bool()
	case reflect.Int, reflect.Int8, reflect.Int16, reflect.Int32, reflect.Int64:
		return strconv.FormatInt(v.Int(), 10)
	case reflect.Uint, reflect.Uint8, reflect.Uint16, reflect.Uint32, reflect.Uint64, reflect.Uintptr:
		return strconv.FormatUint(v.Uint(), 10)
	case reflect.String:
		return map[string]interface{}{"s": v.String()}
	case reflect.Float64, reflect.Float32:
		return map[string]interface{}{"fbits": strconv.FormatUint(math.Float64bits(v.Float()), 10)}
	case reflect.Slice:
		if v.IsNil() {
			return map[string]interface{}{"nil": true}
		}
		es := []interface{}{}
		for i := 0; i < v.Len(); i++ {
			es = append(es, verifTree(v.Index(i)))
		}
		return map[string]interface{}{"elems": es}
	case reflect.Interface:
		if _, ok := v.Interface().(error); ok || v.IsNil() {
			return map[string]interface{}{"err": !v.IsNil()}
		}
	}
	return "?"
}
`
