package gowp

import (
	"golang.org/x/tools/go/ssa"
)

// errors.Is(err, target): an uninterpreted, deterministic relation errIs with
// the two facts every implementation satisfies: a nil error is nothing, and a
// non-nil error is itself.  (Wrapping is abstracted, A8: whether a wrapped
// error Is its cause is left open.)
func errorsIs(e *Engine, st *State, instr ssa.Instruction, fn *ssa.Function, args []*Val, k func(st *State, res *Val)) bool {
	if len(args) != 2 {
		return false
	}
	e.declOnce("fun:errIs", "(declare-fun errIs (Int Int) Bool)")
	a, b := args[0].T, args[1].T
	t := e.named(st, "errIs", sx("errIs", a, b), "Bool")
	st.assume(implies(eq(a, "0"), not(t)))
	st.assume(implies(and(not(eq(a, "0")), eq(a, b)), t))
	k(st, &Val{T: t, Ty: tBool})
	return true
}

func init() {
	hofInit = append(hofInit, func() {
		externs["errors.Is"] = errorsIs
		externs["github.com/pkg/errors.Is"] = errorsIs
	})
}
