package gowp

import (
	"fmt"

	"golang.org/x/tools/go/ssa"
)

// Lock discipline (no interleavings are modelled, A6): a ghost set of the
// mutexes the verified code itself holds. Lock adds the mutex, Unlock removes
// it; `locked(x.mu)` in a contract (typically a `callsite ... requires`) asks
// that a call is made inside the critical section. Code called in between is
// assumed not to release the caller's locks.
//
// A mutex is identified by the object it lives in and the field path to it:
// held[ref][pathid].

const heldGhost = "$held"

func (e *Engine) lockKey(a *Addr) (ref, k string) {
	id := func(s string) string {
		if e.lockIDs == nil {
			e.lockIDs = map[string]int{}
		}
		n, ok := e.lockIDs[s]
		if !ok {
			n = len(e.lockIDs) + 1
			e.lockIDs[s] = n
		}
		return fmt.Sprint(n)
	}
	switch a.Kind {
	case aHeap, aPtr:
		if len(a.Path) == 0 {
			return a.Ref, "0"
		}
		s := a.Base.String()
		for _, p := range a.Path {
			if p.IsIndex {
				panic(unsupported{"mutex inside an array"})
			}
			s += fmt.Sprintf(".%d", p.Field)
		}
		return a.Ref, id(s)
	case aGlobal:
		s := "global " + a.Glob.String()
		for _, p := range a.Path {
			s += fmt.Sprintf(".%d", p.Field)
		}
		return "0", id(s)
	case aCell:
		return "0", id(fmt.Sprintf("cell %p", a.Cell))
	}
	panic(unsupported{"mutex address"})
}

func (e *Engine) heldGet(st *State) string {
	if t, ok := st.ghost["g:"+heldGhost]; ok {
		return t
	}
	n := quoteSym("ghost$held@" + st.ghost["$epoch0"])
	e.declOnce("const:"+n, fmt.Sprintf("(declare-const %s (Array Int (Array Int Bool)))", n))
	st.ghost["g:"+heldGhost] = n
	return n
}

func (e *Engine) heldSet(st *State, ref, k string, v bool) {
	old := e.heldGet(st)
	n := e.freshName("ghost$held")
	st.declare(n, "(Array Int (Array Int Bool))")
	st.define(eq(n, sx("store", old, ref, sx("store", sx("select", old, ref), k, fmt.Sprint(v)))))
	st.ghost["g:"+heldGhost] = n
}

func (e *Engine) isHeld(st *State, a *Addr) string {
	ref, k := e.lockKey(a)
	return sx("select", sx("select", e.heldGet(st), ref), k)
}

func lockOp(acquire bool) externHandler {
	return func(e *Engine, st *State, instr ssa.Instruction, fn *ssa.Function, args []*Val, k func(st *State, res *Val)) bool {
		if len(args) != 1 {
			return false
		}
		a := e.addrOf(args[0])
		ref, key := e.lockKey(a)
		e.Assumed["A6 lock discipline: mutexes are modelled as a ghost held-set (no interleavings); callees do not release their caller's locks"] = true
		e.heldSet(st, ref, key, acquire)
		k(st, nil)
		return true
	}
}

func init() {
	hofInit = append(hofInit, func() {
		externs["(*sync.Mutex).Lock"] = lockOp(true)
		externs["(*sync.Mutex).Unlock"] = lockOp(false)
		externs["(*sync.RWMutex).Lock"] = lockOp(true)
		externs["(*sync.RWMutex).Unlock"] = lockOp(false)
	})
}
