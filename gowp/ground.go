package gowp

import (
	"strings"
)

// recFun: a recursive spec function (symbol, parameter symbols, body term).
type recFun struct {
	sym    string
	params []string
	body   string
	macro  bool // non-recursive (already a define-fun): only expanded to find inner applications
}

// groundRec adds, for every application of a recursive spec function that
// occurs in the query, `depth` levels of definitional unfolding instances.
// Used only for counterexample search: it makes the (otherwise uninterpreted)
// function agree with its definition on the terms a small model needs.
func (e *Engine) groundRec(query string, depth int) string {
	if len(e.recInfo) == 0 {
		return query
	}
	seen := map[string]bool{}
	var extra []string
	frontier := []string{query}
	for d := 0; d < depth; d++ {
		var next []string
		for _, text := range frontier {
			for _, rf := range e.recInfo {
				for _, app := range findApps(text, rf.sym) {
					if seen[app.text] || strings.Contains(app.text, "a$") || strings.Contains(app.text, "q$") {
						continue // applications under binders are not ground
					}
					seen[app.text] = true
					inst := rf.body
					for i, p := range rf.params {
						if i < len(app.args) {
							inst = replaceSym(inst, p, app.args[i])
						}
					}
					if !rf.macro {
						extra = append(extra, "(assert (= "+app.text+" "+inst+"))")
					}
					next = append(next, inst)
				}
			}
		}
		frontier = next
		if len(frontier) == 0 || len(extra) > 400 {
			break
		}
	}
	if len(extra) == 0 {
		return query
	}
	return strings.Replace(query, "(check-sat)", strings.Join(extra, "\n")+"\n(check-sat)", 1)
}

type appOcc struct {
	text string
	args []string
}

// findApps finds all applications "(sym a1 .. an)" in an SMT text.
func findApps(text, sym string) []appOcc {
	var out []appOcc
	pat := "(" + sym + " "
	from := 0
	for {
		i := strings.Index(text[from:], pat)
		if i < 0 {
			break
		}
		i += from
		// find matching paren
		d := 0
		j := i
		inq := false
		for ; j < len(text); j++ {
			c := text[j]
			if c == '|' {
				inq = !inq
			}
			if inq {
				continue
			}
			if c == '"' {
				j++
				for j < len(text) && text[j] != '"' {
					j++
				}
				continue
			}
			if c == '(' {
				d++
			} else if c == ')' {
				d--
				if d == 0 {
					break
				}
			}
		}
		if j >= len(text) {
			break
		}
		app := text[i : j+1]
		sx, _ := parseSexp(app)
		if sx != nil && len(sx.list) > 1 {
			var args []string
			for _, a := range sx.list[1:] {
				args = append(args, a.String())
			}
			out = append(out, appOcc{text: sx.String(), args: args})
		}
		from = i + len(pat)
	}
	return out
}
