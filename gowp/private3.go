package gowp

import (
	"go/types"
	"strings"
)

// storableInto: could the callee store (a reference held by) the argument
// into one of the locations its contract allows it to modify?  Decided by
// types: a value can only be written to a location of a type it is
// assignable to.  Unknown location forms count as "yes".
func (e *Engine) storableInto(env *Env, c *Contract, a *Val) bool {
	if a == nil || a.Ty == nil {
		return true
	}
	for _, m := range c.Modifies {
		for _, loc := range splitTop(m.Text, ',') {
			loc = strings.TrimSpace(loc)
			if loc == "" || loc == "nothing" || strings.HasPrefix(loc, "ghost:") {
				continue
			}
			var lt types.Type
			func() {
				defer func() { _ = recover() }()
				if strings.HasSuffix(loc, "[*]") {
					cl, err := parseClause(strings.TrimSuffix(loc, "[*]"))
					if err != nil {
						return
					}
					v := env.eval(cl.Expr)
					switch t := v.Ty.Underlying().(type) {
					case *types.Slice:
						lt = t.Elem()
					case *types.Map:
						lt = t.Elem()
						if fits(a.Ty, t.Key()) {
							lt = nil
						}
					}
					return
				}
				cl, err := parseClause(loc)
				if err != nil {
					return
				}
				v := env.eval(cl.Expr)
				lt = v.Ty
			}()
			if lt == nil || fits(a.Ty, lt) {
				return true
			}
		}
	}
	return false
}

// fits: a value of type t (or something reachable inside it) may be stored
// in a location of type loc.
func fits(t, loc types.Type) bool {
	if types.AssignableTo(t, loc) {
		return true
	}
	if it, ok := loc.Underlying().(*types.Interface); ok {
		if types.Implements(t, it) || types.Implements(types.NewPointer(t), it) {
			return true
		}
	}
	// a struct location can hold the value in one of its fields
	if st, ok := loc.Underlying().(*types.Struct); ok {
		for i := 0; i < st.NumFields(); i++ {
			if fits(t, st.Field(i).Type()) {
				return true
			}
		}
	}
	return false
}
