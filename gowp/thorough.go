package gowp

import (
	"context"
	"sync"
)

// crossCheck (thorough tier): every obligation that one solver discharged is
// given to the other solvers as well. A second `unsat` confirms it; a `sat`
// from another solver is a disagreement and the obligation is reported as not
// discharged (a solver bug or an unsoundness in a theory combination must not
// be what a proof rests on); timeouts of the slower solvers are not counted.
func (e *Engine) crossCheck() (confirmed, disagree int) {
	var mu sync.Mutex
	var wg sync.WaitGroup
	queue := make(chan *Obligation, len(e.Obls))
	for _, o := range e.Obls {
		if o.Kind == "cover" || o.Result.Status != "unsat" || o.Query == "" || o.Result.Backend == "trivial" {
			continue
		}
		queue <- o
	}
	close(queue)
	for w := 0; w < 12; w++ {
		wg.Add(1)
		go func() {
			defer wg.Done()
			for o := range queue {
				second := false
				for _, sp := range solvers {
					if sp.name == o.Result.Backend {
						continue
					}
					r := runOne(context.Background(), sp, o.Query, 5000)
					switch r.Status {
					case "unsat":
						second = true
					case "sat":
						mu.Lock()
						disagree++
						mu.Unlock()
						o.Result = SolverResult{Status: "unknown", Backend: "disagreement", Seconds: o.Result.Seconds + r.Seconds,
							Raw: "solver disagreement: " + o.Result.Backend + " says unsat, " + sp.name + " says sat\n" + r.Raw, Model: r.Model}
					}
					if o.Result.Status != "unsat" {
						break
					}
				}
				if second && o.Result.Status == "unsat" {
					mu.Lock()
					confirmed++
					mu.Unlock()
				}
			}
		}()
	}
	wg.Wait()
	return confirmed, disagree
}
