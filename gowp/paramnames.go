package gowp

import "golang.org/x/tools/go/ssa"

// paramNames: the parameter names a contract refers to (receiver first). A
// function of a dependency has no SSA body; its names come from the signature.
func paramNames(fn *ssa.Function) []string {
	var out []string
	if len(fn.Params) > 0 {
		for _, p := range fn.Params {
			out = append(out, p.Name())
		}
		return out
	}
	if r := fn.Signature.Recv(); r != nil {
		out = append(out, r.Name())
	}
	ps := fn.Signature.Params()
	for i := 0; i < ps.Len(); i++ {
		out = append(out, ps.At(i).Name())
	}
	return out
}
