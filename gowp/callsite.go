package gowp

import (
	"fmt"

	"golang.org/x/tools/go/ssa"
)

// callSiteReqs: `callsite <Func> requires <expr>` clauses of the function
// under verification, checked wherever it (or a closure / inlined callee of
// it) calls a function of that name.
func (e *Engine) callSiteReqs(st *State, instr ssa.Instruction, fn *ssa.Function, args []*Val) {
	if len(st.frames) == 0 || st.frames[0].contract == nil || e.quiet > 0 {
		return
	}
	cls := st.frames[0].contract.CallSites[stripTypeArgs(fn.Name())]
	if len(cls) == 0 {
		return
	}
	env := e.envFor(st, st.top())
	env.useVars = true
	env.old = st.frames[0].entry
	i0 := 0
	if fn.Signature.Recv() != nil && len(args) > 0 {
		env.names["recv"] = args[0]
		i0 = 1
	}
	for i := i0; i < len(args); i++ {
		env.names[fmt.Sprintf("a%d", i-i0)] = args[i]
	}
	for i, cl := range cls {
		nm := stripTypeArgs(fn.Name())
		e.emit(st, "pre", fmt.Sprintf("%s#%d", e.site(instr, "callsite@"+nm), i), e.evalBool(env, cl), "at every call of "+nm+": "+cl.Text+" "+e.posOf(instr.Pos()))
	}
}
