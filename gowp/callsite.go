package gowp

import (
	"fmt"
	"sort"

	"golang.org/x/tools/go/ssa"
)

// callSiteReqs: `callsite <Func> requires <expr>` clauses of the function
// under verification, checked wherever it (or a closure / inlined callee of
// it) calls a function or interface method of that name.
func (e *Engine) callSiteReqs(st *State, instr ssa.Instruction, fn *ssa.Function, args []*Val) {
	e.callSiteReqsNamed(st, instr, stripTypeArgs(fn.Name()), fn.Signature.Recv() != nil, args)
}

func (e *Engine) callSiteReqsNamed(st *State, instr ssa.Instruction, nm string, hasRecv bool, args []*Val) {
	if len(st.frames) == 0 || st.frames[0].contract == nil || e.quiet > 0 {
		return
	}
	cls := st.frames[0].contract.CallSites[nm]
	if len(cls) == 0 {
		return
	}
	if e.callsiteHit != nil {
		e.callsiteHit[nm] = true
	}
	env := e.envFor(st, st.top())
	env.useVars = true
	env.old = st.frames[0].entry
	i0 := 0
	if hasRecv && len(args) > 0 {
		env.names["recv"] = args[0]
		i0 = 1
	}
	for i := i0; i < len(args); i++ {
		env.names[fmt.Sprintf("a%d", i-i0)] = args[i]
	}
	for i, cl := range cls {
		e.emit(st, "pre", fmt.Sprintf("%s#%d", e.site(instr, "callsite@"+nm), i), e.evalBool(env, cl), "at every call of "+nm+": "+cl.Text+" "+e.posOf(instr.Pos()))
	}
}

// callsiteUnused: a callsite clause that matched no call on any path asserts
// nothing (vacuity guard): reported as a failed binding.
func (e *Engine) callsiteUnused(st *State, c *Contract) {
	var names []string
	for nm := range c.CallSites {
		if e.callsiteHit[nm] {
			continue
		}
		// `callsite f requires false` forbids calling f: no call is the point
		prohibition := true
		for _, cl := range c.CallSites[nm] {
			if cl.Text != "false" {
				prohibition = false
			}
		}
		if !prohibition {
			names = append(names, nm)
		}
	}
	sort.Strings(names)
	for _, nm := range names {
		e.emit(st, "pre", "callsite@"+nm+"#unused", "false", "callsite clause for "+nm+" matched no call of the verified function (the clause asserts nothing)")
	}
}

// callSiteEns: `callsite <Func> ensures <expr>` clauses of the function under
// verification: assumed about the results of every call of a function of that
// name (r0.. = results, recv / a0.. = receiver and arguments). For functions
// outside the verifier (sync.Pool.Get ...); every clause used is reported as
// an assumption.
func (e *Engine) callSiteEns(st *State, nm string, hasRecv bool, args []*Val, res *Val) {
	if len(st.frames) == 0 || st.frames[0].contract == nil {
		return
	}
	cls := st.frames[0].contract.CallSiteEns[nm]
	if len(cls) == 0 {
		return
	}
	env := e.envFor(st, st.top())
	env.useVars = true
	env.old = st.frames[0].entry
	i0 := 0
	if hasRecv && len(args) > 0 {
		env.names["recv"] = args[0]
		i0 = 1
	}
	for i := i0; i < len(args); i++ {
		env.names[fmt.Sprintf("a%d", i-i0)] = args[i]
	}
	if res != nil {
		if res.Tup != nil {
			for i, r := range res.Tup {
				env.names[fmt.Sprintf("r%d", i)] = r
			}
		} else {
			env.names["r0"] = res
		}
	}
	for _, cl := range cls {
		st.assume(e.evalBool(env, cl))
		e.Assumed["assumed about the result of "+nm+" (callsite ensures): "+cl.Text] = true
	}
}
