package gowp

import (
	"golang.org/x/tools/go/ssa"
)

// doGo: `go f(args)`.  The engine has no thread model (DESIGN §3).  The new
// goroutine's body is checked on its own: it starts at an arbitrary later
// time, i.e. from the spawner's state with the whole heap havoc'd (objects
// still private to the verified function keep their contents only if the
// goroutine does not receive them), and every obligation inside it (panics,
// call-site requirements, callee preconditions) is generated as usual.  The
// spawner continues unaffected: what the goroutine does to shared state later
// is covered, where it matters, by the havoc at the spawner's own later
// unknown calls and by the lock discipline assumption A6.
func (e *Engine) doGo(st *State, x *ssa.Go) {
	e.Assumed["go statements: the goroutine body is verified from an arbitrary state; its later effect on the spawner is not modelled (A6)"] = true
	call := &x.Call
	if call.IsInvoke() {
		return
	}
	var args []*Val
	for _, a := range call.Args {
		args = append(args, e.get(st, a))
	}
	fv := e.getOpt(st, call.Value)
	if fv == nil || fv.Clo == nil {
		return // unknown function value: nothing of ours to check
	}
	g := st.clone()
	for _, a := range args {
		e.escape(g, a)
	}
	for _, b := range fv.Clo.Bind {
		e.escape(g, b)
	}
	e.havocAllKeepPrivate(g)
	g.trace = append(g.trace, "goroutine started at "+e.posOf(x.Pos())+" (arbitrary state)")
	e.runPath(func() {
		e.callFunc(g, x, fv.Clo.Fn, args, fv.Clo.Bind, call, func(st *State, _ *Val) {
			e.pathCount++
		})
	})
}
