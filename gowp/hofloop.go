package gowp

import (
	"fmt"
	"go/types"
	"strings"

	"golang.org/x/tools/go/ssa"
)

// Higher-order loop schemas (DESIGN 2.6).  A schema is a trusted description
// of how a library function invokes its function arguments; the call is then
// verified like a loop of the caller: the caller's contract supplies the
// invariants (`hof <Callee>#<n> <level> invariant <expr>`), the engine checks
// them on entry, assumes them for an arbitrary iteration, runs the real
// closure bodies symbolically and checks preservation.

func (e *Engine) hofSpec(fr *Frame, key string) *LoopSpec {
	c := fr.contract
	if c == nil {
		c = e.contractFor(fr.fn)
	}
	if c == nil || c.Hofs == nil {
		return nil
	}
	return c.Hofs[key]
}

// hofSiteKey: "<Callee>#<ordinal among calls of that callee in the function>"
func (e *Engine) hofSiteKey(instr ssa.Instruction, callee string) string {
	fn := instr.Parent()
	n := 0
	for _, b := range fn.Blocks {
		for _, in := range b.Instrs {
			if in == instr {
				return fmt.Sprintf("%s#%d", callee, n)
			}
			if ci, ok := in.(ssa.CallInstruction); ok {
				if sc := ci.Common().StaticCallee(); sc != nil && stripTypeArgs(sc.Name()) == callee {
					n++
				}
			}
		}
	}
	return callee + "#?"
}

func (e *Engine) hofEnv(st *State, fr *Frame, bind map[string]*Val, pre *State) *Env {
	env := e.envFor(st, fr)
	env.useVars = true
	env.pre = pre
	for k, v := range bind {
		env.names[k] = v
	}
	return env
}

func (e *Engine) hofCheck(st *State, fr *Frame, ls *LoopSpec, kind, site string, bind map[string]*Val, pre *State) {
	if ls == nil {
		return
	}
	env := e.hofEnv(st, fr, bind, pre)
	// names bound here shadow tracked variables of the same name
	env.callArg = false
	for i, inv := range ls.Invariants {
		label := inv.Label
		if label == "" {
			label = fmt.Sprint(i)
		}
		e.emit(st, kind, fmt.Sprintf("%s#%s.%s", kind, site, label), e.evalBool(env, inv), kind+" of "+site+": "+inv.Text)
	}
}

func (e *Engine) hofAssume(st *State, fr *Frame, ls *LoopSpec, bind map[string]*Val, pre *State) {
	if ls == nil {
		return
	}
	env := e.hofEnv(st, fr, bind, pre)
	env.assuming = true
	for _, inv := range ls.Invariants {
		st.assume(e.evalBool(env, inv))
	}
	for _, h := range ls.Hints {
		st.assume(e.evalBool(env, h))
	}
}

// closureMods: what invoking the closure may modify.
func (e *Engine) closureHavoc(st *State, clo *Closure) {
	if clo == nil {
		e.havocAll(st)
		return
	}
	ms := newModSet()
	ms.topFn = clo.Fn
	seen := map[*ssa.Function]bool{clo.Fn: true}
	for _, b := range clo.Fn.Blocks {
		e.scanBlockMods(b, nil, ms, 0, seen)
	}
	bind := map[ssa.Value]*Val{}
	for i, fv := range clo.Fn.FreeVars {
		if i < len(clo.Bind) {
			bind[fv] = clo.Bind[i]
		}
	}
	e.applyModSet(st, ms, func(v ssa.Value) *Val {
		if r, ok := bind[v]; ok {
			return r
		}
		panic(unsupported{"closure modifies through a value that is not captured"})
	})
}

func intVal(t string) *Val { return &Val{T: t, Ty: tInt} }

// batchWork: util.BatchWork(ctx, size, limit, pref, f).
//
// Schema (trusted here, A7; cross-checked against the real body under C33):
// for each batch [b, min(b+limit,size)-1], b = 0, limit, 2*limit, ... in
// order: pref(ctx, last) once, then f(ctx, j, last) once for every index j of
// the batch in an arbitrary order (jobs of one batch do not interleave inside
// their critical sections); the first error stops everything and is returned.
func batchWork(e *Engine, st *State, instr ssa.Instruction, fn *ssa.Function, args []*Val, k func(st *State, res *Val)) bool {
	if len(args) != 5 || args[3].Clo == nil || args[4].Clo == nil {
		return false
	}
	fr := st.top()
	site := e.hofSiteKey(instr, "BatchWork")
	outer := e.hofSpec(fr, site+"/outer")
	inner := e.hofSpec(fr, site+"/inner")
	ctx, size, limit, pref, f := args[0], args[1].T, args[2].T, args[3].Clo, args[4].Clo
	errT := fn.Signature.Results().At(0).Type()
	e.Assumed["A7 util.BatchWork schema: batches in order, pref before the jobs of its batch, every index once, first error returned"] = true

	// size < 1: error
	bad := st.clone()
	bad.branch(sx("<", size, "1"))
	e.runPath(func() { k(bad, &Val{T: e.namedErr("batchwork.size"), Ty: errT}) })
	st.branch(sx(">=", size, "1"))
	e.emit(st, "pre", e.site(instr, "pre@BatchWork")+"#limit", sx(">=", limit, "1"), "BatchWork needs limit >= 1 "+e.posOf(instr.Pos()))
	st.assume(sx(">=", limit, "1"))

	pre := st.snapshot()
	zero := map[string]*Val{"bstart": intVal("0")}
	e.hofCheck(st, fr, outer, "inv-init", site+"/outer", zero, pre)

	// arbitrary batch
	e.closureHavoc(st, pref)
	e.closureHavoc(st, f)
	bs := e.freshName("bstart")
	st.declare(bs, "Int")
	st.assume(and(sx("<=", "0", bs), sx("<", bs, size), eq(sx("mod", bs, limit), "0")))
	bl := e.named(st, "blast", sx("-", ite(sx("<", sx("+", bs, limit), size), sx("+", bs, limit), size), "1"), "Int")
	bindO := map[string]*Val{"bstart": intVal(bs), "blast": intVal(bl)}
	e.hofAssume(st, fr, outer, bindO, pre)
	st.trace = append(st.trace, site+": arbitrary batch")

	u64 := types.Typ[types.Uint64]
	e.callFunc(st, instr, pref.Fn, []*Val{ctx, {T: bl, Ty: u64}}, pref.Bind, nil, func(st *State, perr *Val) {
		fr := st.top()
		// pref failed: BatchWork returns its error
		st2 := st.clone()
		st2.branch(not(eq(perr.T, "0")))
		e.runPath(func() { k(st2, perr) })
		st.branch(eq(perr.T, "0"))

		preIn := st.snapshot()
		e.declSet()
		empty := "((as const (Array Int Bool)) false)"
		bindI := map[string]*Val{"bstart": intVal(bs), "blast": intVal(bl), "bdone": {T: empty, Ty: types.NewArray(tBool, 0)}}
		e.hofCheck(st, fr, inner, "inv-init", site+"/inner", bindI, preIn)

		e.closureHavoc(st, f)
		done := e.freshName("bdone")
		st.declare(done, "(Array Int Bool)")
		qj := quoteSym("q$j")
		st.assume(fmt.Sprintf("(forall ((%s Int)) (=> (select %s %s) (and (<= %s %s) (<= %s %s))))", qj, done, qj, bs, qj, qj, bl))
		bindI["bdone"] = &Val{T: done, Ty: types.NewArray(tBool, 0)}
		e.hofAssume(st, fr, inner, bindI, preIn)

		// (A) one more job
		stA := st.clone()
		j := e.freshName("bjob")
		stA.declare(j, "Int")
		stA.assume(and(sx("<=", bs, j), sx("<=", j, bl), not(sx("select", done, j))))
		stA.trace = append(stA.trace, site+": arbitrary job of the batch")
		e.runPath(func() {
			e.callFunc(stA, instr, f.Fn, []*Val{ctx, {T: j, Ty: u64}, {T: bl, Ty: u64}}, f.Bind, nil, func(st *State, ferr *Val) {
				fr := st.top()
				st2 := st.clone()
				st2.branch(not(eq(ferr.T, "0")))
				e.runPath(func() { k(st2, ferr) })
				st.branch(eq(ferr.T, "0"))
				bk := map[string]*Val{"bstart": intVal(bs), "blast": intVal(bl), "bdone": {T: sx("store", done, j, "true"), Ty: types.NewArray(tBool, 0)}, "bjob": intVal(j)}
				e.hofCheck(st, fr, inner, "inv-keep", site+"/inner", bk, preIn)
				e.pathCount++
			})
		})

		// (B) the batch is complete
		st.assume(fmt.Sprintf("(forall ((%s Int)) (=> (and (<= %s %s) (<= %s %s)) (select %s %s)))", qj, bs, qj, qj, bl, done, qj))
		stN := st.clone()
		stN.branch(not(eq(sx("+", bl, "1"), size)))
		e.runPath(func() {
			e.hofCheck(stN, stN.top(), outer, "inv-keep", site+"/outer", map[string]*Val{"bstart": intVal(sx("+", bs, limit))}, pre)
			e.pathCount++
		})
		st.branch(eq(sx("+", bl, "1"), size))
		st.trace = append(st.trace, site+": last batch complete, BatchWork returns nil")
		k(st, &Val{T: "0", Ty: errT})
	})
	return true
}

func (e *Engine) declSet() {}

// namedErr: a global non-nil error constant.
func (e *Engine) namedErr(hint string) string {
	if e.errSites == nil {
		e.errSites = map[string]string{}
	}
	if n, ok := e.errSites["named:"+hint]; ok {
		return n
	}
	n := e.freshName("err@" + hint)
	e.errSites["named:"+hint] = n
	e.addDecl(fmt.Sprintf("(declare-const %s Int)", n))
	e.addDecl(fmt.Sprintf("(assert (> %s 0))", n))
	return n
}

func init() {
	hofInit = append(hofInit, func() {
		externs[modPath+"/util.BatchWork"] = batchWork
		externMods[modPath+"/util.BatchWork"] = func(e *Engine, call *ssa.CallCommon, ms *modSet) {
			ms.all = true
			ms.why = append(ms.why, "BatchWork inside a loop")
		}
	})
}

var hofInit []func()

func parseHofClause(cur *Contract, rest string) error {
	// hof <Callee>#<n> <level> invariant|hint <expr>
	w1, r1 := splitWord(rest)
	w2, r2 := splitWord(r1)
	w3, r3 := splitWord(r2)
	if !strings.Contains(w1, "#") {
		return fmt.Errorf("hof site must be <Callee>#<n>")
	}
	c, err := parseClause(r3)
	if err != nil {
		return err
	}
	if cur.Hofs == nil {
		cur.Hofs = map[string]*LoopSpec{}
	}
	key := w1 + "/" + w2
	ls := cur.Hofs[key]
	if ls == nil {
		ls = &LoopSpec{}
		cur.Hofs[key] = ls
	}
	switch w3 {
	case "invariant":
		ls.Invariants = append(ls.Invariants, c)
	case "hint":
		if err := checkHint(c.Expr); err != nil {
			return err
		}
		ls.Hints = append(ls.Hints, c)
	default:
		return fmt.Errorf("hof clause %q", w3)
	}
	return nil
}
