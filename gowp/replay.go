package gowp

// ReplayResult: outcome of replaying a solver model on the real code.
type ReplayResult struct {
	Reproduced bool
	File       string
	Output     string
}

// tryReplay is filled in by replay_impl.go
var tryReplay = func(e *Engine, opt Options, id string, g *Group) (ReplayResult, bool) {
	return ReplayResult{}, false
}

// RunBounded runs a named bounded stand-in check (real functions executed on
// an enumerated input space); see bounded.go.
var RunBounded = func(e *Engine, opt Options, id, name string) (BoundedCheck, []string) {
	return BoundedCheck{Function: name, Bound: "not implemented"}, []string{"bounded check " + name + " not implemented"}
}
