package main

import (
	"flag"
	"fmt"
	"os"
	"strconv"
	"strings"

	"gowp"
)

func main() {
	if len(os.Args) < 3 {
		fmt.Println("usage: vcheck check <Cxx> [--tier quick|thorough] [-v] [--only substr] [--write-ledger]")
		os.Exit(2)
	}
	cmd := os.Args[1]
	id := os.Args[2]
	fs := flag.NewFlagSet("vcheck", flag.ExitOnError)
	tier := fs.String("tier", envOr("VERIF_TIER", "quick"), "quick|thorough")
	verbose := fs.Bool("v", false, "verbose")
	only := fs.String("only", "", "restrict to functions whose key contains this")
	wl := fs.Bool("write-ledger", false, "rewrite the ledger from this run")
	noreplay := fs.Bool("no-replay", false, "skip replay")
	repo := fs.String("repo", envOr("VERIF_REPO", "/repo"), "repository directory")
	verif := fs.String("verif", envOr("VERIF_DIR", "/verif"), "verif directory")
	_ = fs.Parse(os.Args[3:])
	seed, _ := strconv.ParseInt(envOr("VERIF_SEED", "0"), 10, 64)
	switch cmd {
	case "replay":
		// vcheck replay <file>: re-run a generated counterexample test against /repo
		if !strings.HasSuffix(id, "_test.go") {
			b, _ := os.ReadFile(id)
			fmt.Println(string(b))
			os.Exit(0)
		}
		out, _ := gowp.RunReplayFile(*repo, id)
		fmt.Println(out)
		if strings.Contains(out, "VERIF-REPLAY REPRODUCED") {
			os.Exit(1)
		}
		os.Exit(0)
	case "check":
		os.Exit(gowp.RunCheck(id, gowp.Options{VerifDir: *verif, RepoDir: *repo, Tier: *tier, Seed: seed, Verbose: *verbose, Only: *only, WriteLedger: *wl, NoReplay: *noreplay}))
	default:
		fmt.Println("unknown command", cmd)
		os.Exit(2)
	}
}

func envOr(k, d string) string {
	if v := os.Getenv(k); v != "" {
		return v
	}
	return d
}
