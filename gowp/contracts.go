package gowp

import (
	"fmt"
	"go/ast"
	"go/parser"
	"os"
	"path/filepath"
	"regexp"
	"strconv"
	"strings"
)

type Clause struct {
	Label string
	Text  string
	Expr  ast.Expr
}

type LoopSpec struct {
	Invariants []*Clause
	Decreases  *Clause
	Hints      []*Clause // definitional instances (unfold(...)) assumed in the loop
	InitHints  []*Clause // the same, assumed on loop entry (before the inv-init checks)
}

type Contract struct {
	Key      string // pkgpath.RelString
	Pkg      string
	Name     string
	Props    []string
	Requires []*Clause
	Ensures  []*Clause
	PostHints []*Clause // `posthint unfold(...)`: definitional instances assumed before the ensures are checked
	Modifies []*Clause
	Loops    map[int]*LoopSpec
	Calls    []*CallSpec
	Hofs     map[string]*LoopSpec // caller-side invariants for higher-order loop schemas
	FnParams map[string][]*Clause // assumed postconditions of function-typed parameters
	Uses     []string             // lemmas assumed in this function's VCs
	FnParamReq map[string][]*Clause // obligations at every call of a function-typed parameter
	CallSites  map[string][]*Clause // obligations at every call of a named function
	CallSiteEns map[string][]*Clause // assumptions about the results of calls of a named (external) function, listed as assumptions
	FnParamPure map[string]bool     // function-typed parameters/fields assumed to be effect-free
	FnParamCounts map[string]string // function value name -> ghost counter incremented by each call
	Trusted  bool // contract assumed at call sites, body not verified
	Pure     bool
	BV       bool
	NoBody   bool // do not verify body (interface method / external)
	Inline   bool
	Covers   bool
	Opts     map[string]string
	File     string
	Line     int
}

type SpecFunc struct {
	Name   string
	Params []SpecParam
	Ret    string // sort keyword
	Body   *Clause
	Rec    bool
	Pkg    string
}

type SpecParam struct {
	Name string
	Sort string // keyword: int bool string or Go type name
}

type Lemma struct {
	Name  string
	Props []string
	C     *Clause
	Axiom bool
	Pkg   string
}

var reLabel = regexp.MustCompile(`^\[([A-Za-z0-9_\-]+)\]\s*`)

func parseClause(text string) (*Clause, error) {
	c := &Clause{}
	text = strings.TrimSpace(text)
	if m := reLabel.FindStringSubmatch(text); m != nil {
		c.Label = m[1]
		text = text[len(m[0]):]
	}
	c.Text = text
	pp, err := preprocessSpec(text)
	if err != nil {
		return nil, err
	}
	x, err := parser.ParseExpr(pp)
	if err != nil {
		return nil, fmt.Errorf("spec parse %q: %v", pp, err)
	}
	c.Expr = x
	return c, nil
}

// preprocessSpec rewrites `a ==> b` (lowest precedence, right associative)
// into imp(a, b) at every parenthesis nesting level.
func preprocessSpec(s string) (string, error) {
	// split s into top-level pieces
	var out strings.Builder
	// first process nested groups
	i := 0
	var flat strings.Builder
	for i < len(s) {
		c := s[i]
		if c == '"' {
			j := i + 1
			for j < len(s) && s[j] != '"' {
				if s[j] == '\\' {
					j++
				}
				j++
			}
			if j >= len(s) {
				return "", fmt.Errorf("unterminated string in spec %q", s)
			}
			flat.WriteString(s[i : j+1])
			i = j + 1
			continue
		}
		if c == '(' || c == '[' {
			closeCh := byte(')')
			if c == '[' {
				closeCh = ']'
			}
			d := 0
			j := i
			for ; j < len(s); j++ {
				if s[j] == '"' {
					j++
					for j < len(s) && s[j] != '"' {
						if s[j] == '\\' {
							j++
						}
						j++
					}
					continue
				}
				if s[j] == c {
					d++
				} else if s[j] == closeCh {
					d--
					if d == 0 {
						break
					}
				}
			}
			if j >= len(s) {
				return "", fmt.Errorf("unbalanced parens in spec %q", s)
			}
			inner := s[i+1 : j]
			parts := splitTop(inner, ',')
			for k, p := range parts {
				pp, err := preprocessSpec(p)
				if err != nil {
					return "", err
				}
				parts[k] = pp
			}
			flat.WriteByte(c)
			flat.WriteString(strings.Join(parts, ","))
			flat.WriteByte(closeCh)
			i = j + 1
			continue
		}
		flat.WriteByte(c)
		i++
	}
	fs := flat.String()
	idx := indexTop(fs, "==>")
	if idx < 0 {
		out.WriteString(fs)
		return out.String(), nil
	}
	l := fs[:idx]
	r, err := preprocessSpec(fs[idx+3:])
	if err != nil {
		return "", err
	}
	return "imp(" + strings.TrimSpace(l) + ", " + strings.TrimSpace(r) + ")", nil
}

func indexTop(s, sep string) int {
	d := 0
	for i := 0; i < len(s); i++ {
		switch s[i] {
		case '"':
			i++
			for i < len(s) && s[i] != '"' {
				if s[i] == '\\' {
					i++
				}
				i++
			}
		case '(', '[':
			d++
		case ')', ']':
			d--
		default:
			if d == 0 && strings.HasPrefix(s[i:], sep) {
				return i
			}
		}
	}
	return -1
}

func splitTop(s string, sep byte) []string {
	var parts []string
	d := 0
	last := 0
	for i := 0; i < len(s); i++ {
		switch s[i] {
		case '"':
			i++
			for i < len(s) && s[i] != '"' {
				if s[i] == '\\' {
					i++
				}
				i++
			}
		case '(', '[':
			d++
		case ')', ']':
			d--
		default:
			if d == 0 && s[i] == sep {
				parts = append(parts, s[last:i])
				last = i + 1
			}
		}
	}
	parts = append(parts, s[last:])
	return parts
}

var reSpecFunc = regexp.MustCompile(`^spec\s+func\s+(\w+)\s*\(([^)]*)\)\s*([\w\.\*\[\]]+)\s*(=\s*(.*))?$`)

// LoadContractFile parses one file of //@ lines. pkgPath is the Go import
// path the function names are relative to ("" for spec files that set it with
// `//@ package <path>`).
func (e *Engine) LoadContractFile(file, pkgPath string) error {
	data, err := os.ReadFile(file)
	if err != nil {
		return err
	}
	lines := strings.Split(string(data), "\n")
	var cur *Contract
	for ln := 0; ln < len(lines); ln++ {
		line := strings.TrimSpace(lines[ln])
		if !strings.HasPrefix(line, "//@") {
			continue
		}
		line = strings.TrimSpace(line[3:])
		// continuation
		for strings.HasSuffix(line, "\\") && ln+1 < len(lines) {
			nx := strings.TrimSpace(lines[ln+1])
			if !strings.HasPrefix(nx, "//@") {
				break
			}
			line = strings.TrimSpace(line[:len(line)-1]) + " " + strings.TrimSpace(nx[3:])
			ln++
		}
		if line == "" || strings.HasPrefix(line, "#") {
			continue
		}
		fail := func(err error) error { return fmt.Errorf("%s:%d: %v", file, ln+1, err) }
		word, rest := splitWord(line)
		switch word {
		case "package":
			pkgPath = rest
			cur = nil
		case "ghost":
			ws := strings.Fields(rest)
			if len(ws) != 2 {
				return fail(fmt.Errorf("ghost <name> <sort>"))
			}
			e.Ghosts = append(e.Ghosts, &GhostSpec{Name: ws[0], Sort: ws[1], Pkg: pkgPath})
			cur = nil
		case "writers":
			// writers <Type>.<field> (Cxx) <func> <func> ...: the field is
			// assigned only inside the named functions (a frame obligation)
			ws := strings.Fields(rest)
			if len(ws) < 3 || !strings.Contains(ws[0], ".") || !strings.HasPrefix(ws[1], "(") {
				return fail(fmt.Errorf("writers <Type>.<field> (Cxx) <func>..."))
			}
			e.Writers = append(e.Writers, &WritersSpec{Pkg: pkgPath, Field: ws[0], Prop: strings.Trim(ws[1], "()"), Funcs: ws[2:]})
			cur = nil
		case "global":
			ws := strings.Fields(rest)
			if len(ws) < 2 {
				return fail(fmt.Errorf("global <name> maplit"))
			}
			e.Globals = append(e.Globals, &GlobalSpec{Pkg: pkgPath, Name: ws[0], Kind: ws[1]})
			cur = nil
		case "func":
			name := strings.TrimSpace(rest)
			cur = &Contract{Key: pkgPath + "." + name, Pkg: pkgPath, Name: name, Loops: map[int]*LoopSpec{}, Opts: map[string]string{}, File: file, Line: ln + 1}
			if _, dup := e.Contracts[cur.Key]; dup {
				return fail(fmt.Errorf("duplicate contract for %s", cur.Key))
			}
			e.Contracts[cur.Key] = cur
		case "spec":
			m := reSpecFunc.FindStringSubmatch(line)
			if m == nil {
				return fail(fmt.Errorf("bad spec func: %s", line))
			}
			sf := &SpecFunc{Name: m[1], Ret: m[3], Pkg: pkgPath}
			for _, p := range strings.Split(m[2], ",") {
				p = strings.TrimSpace(p)
				if p == "" {
					continue
				}
				ws := strings.Fields(p)
				if len(ws) != 2 {
					return fail(fmt.Errorf("bad spec param %q", p))
				}
				sf.Params = append(sf.Params, SpecParam{ws[0], ws[1]})
			}
			if m[5] != "" {
				c, err := parseClause(m[5])
				if err != nil {
					return fail(err)
				}
				sf.Body = c
				sf.Rec = regexp.MustCompile(`\b` + sf.Name + `\(`).MatchString(m[5])
			}
			if _, dup := e.SpecFuncs[sf.Name]; dup {
				return fail(fmt.Errorf("duplicate spec func %s", sf.Name))
			}
			e.SpecFuncs[sf.Name] = sf
			cur = nil
		case "axiom", "lemma":
			i := strings.Index(rest, ":")
			if i < 0 {
				return fail(fmt.Errorf("lemma needs name: formula"))
			}
			head := strings.Fields(rest[:i])
			c, err := parseClause(rest[i+1:])
			if err != nil {
				return fail(err)
			}
			l := &Lemma{Name: head[0], C: c, Axiom: word == "axiom", Pkg: pkgPath}
			for _, h := range head[1:] {
				l.Props = append(l.Props, strings.Split(strings.Trim(h, "()"), ",")...)
			}
			if l.Axiom {
				e.Axioms = append(e.Axioms, l)
			} else {
				e.Lemmas = append(e.Lemmas, l)
			}
			cur = nil
		default:
			if cur == nil {
				return fail(fmt.Errorf("clause %q outside func block", word))
			}
			switch word {
			case "prop":
				for _, p := range strings.Split(rest, ",") {
					cur.Props = append(cur.Props, strings.TrimSpace(p))
				}
			case "modifies":
				cur.Modifies = append(cur.Modifies, &Clause{Text: rest})
			case "requires", "ensures":
				c, err := parseClause(rest)
				if err != nil {
					return fail(err)
				}
				switch word {
				case "requires":
					cur.Requires = append(cur.Requires, c)
				case "ensures":
					cur.Ensures = append(cur.Ensures, c)
				case "modifies":
					cur.Modifies = append(cur.Modifies, c)
				}
			case "posthint":
				c, err := parseClause(rest)
				if err != nil {
					return fail(err)
				}
				if err := checkHint(c.Expr); err != nil {
					return fail(err)
				}
				cur.PostHints = append(cur.PostHints, c)
			case "loop":
				w2, r2 := splitWord(rest)
				n, err := strconv.Atoi(w2)
				if err != nil {
					return fail(fmt.Errorf("loop ordinal: %v", err))
				}
				w3, r3 := splitWord(r2)
				ls := cur.Loops[n]
				if ls == nil {
					ls = &LoopSpec{}
					cur.Loops[n] = ls
				}
				c, err := parseClause(r3)
				if err != nil {
					return fail(err)
				}
				switch w3 {
				case "invariant":
					ls.Invariants = append(ls.Invariants, c)
				case "decreases":
					ls.Decreases = c
				case "hint":
					if err := checkHint(c.Expr); err != nil {
						return fail(err)
					}
					ls.Hints = append(ls.Hints, c)
				case "inithint":
					if err := checkHint(c.Expr); err != nil {
						return fail(err)
					}
					ls.InitHints = append(ls.InitHints, c)
				default:
					return fail(fmt.Errorf("loop clause %q", w3))
				}
			case "callsite":
				// callsite <FuncName> requires <expr>: an assertion checked at
				// every call of that function made by the verified function
				// (recv = receiver, a0.. = the other arguments, local
				// variables visible)
				fnm, r1 := splitWord(rest)
				w, r2 := splitWord(r1)
				if w != "requires" && w != "ensures" {
					return fail(fmt.Errorf("callsite <func> requires|ensures <expr>"))
				}
				c, err := parseClause(r2)
				if err != nil {
					return fail(err)
				}
				if w == "ensures" {
					// callsite <FuncName> ensures <expr>: assumed about the
					// results (r0..) of every call of that function made by the
					// verified function; reported as an assumption
					if cur.CallSiteEns == nil {
						cur.CallSiteEns = map[string][]*Clause{}
					}
					cur.CallSiteEns[fnm] = append(cur.CallSiteEns[fnm], c)
					break
				}
				if cur.CallSites == nil {
					cur.CallSites = map[string][]*Clause{}
				}
				cur.CallSites[fnm] = append(cur.CallSites[fnm], c)
			case "use":
				// use <lemma>, ...: assume (separately proved) lemmas in this function's VCs
				for _, u := range strings.Split(rest, ",") {
					if u = strings.TrimSpace(u); u != "" {
						cur.Uses = append(cur.Uses, u)
					}
				}
			case "fnparam":
				// fnparam <name> ensures <expr>
				pn, r1 := splitWord(rest)
				w, r2 := splitWord(r1)
				if w == "pure" {
					// assumed: calling this function value has no effect on the heap
					if cur.FnParamPure == nil {
						cur.FnParamPure = map[string]bool{}
					}
					cur.FnParamPure[pn] = true
					break
				}
				if w == "counts" {
					// fnparam <name> counts <ghost>: every call of the function
					// value increments that integer ghost (an exact invocation counter)
					if cur.FnParamCounts == nil {
						cur.FnParamCounts = map[string]string{}
					}
					cur.FnParamCounts[pn] = strings.TrimSpace(r2)
					break
				}
				if w != "ensures" && w != "requires" {
					return fail(fmt.Errorf("fnparam <name> ensures|requires <expr>"))
				}
				c, err := parseClause(r2)
				if err != nil {
					return fail(err)
				}
				if w == "requires" {
					// what the verified function guarantees whenever it calls the parameter
					if cur.FnParamReq == nil {
						cur.FnParamReq = map[string][]*Clause{}
					}
					cur.FnParamReq[pn] = append(cur.FnParamReq[pn], c)
					break
				}
				if cur.FnParams == nil {
					cur.FnParams = map[string][]*Clause{}
				}
				cur.FnParams[pn] = append(cur.FnParams[pn], c)
			case "hof":
				if err := parseHofClause(cur, rest); err != nil {
					return fail(err)
				}
			case "calls", "loops":
				cs, err := parseCallSpec(rest)
				if err != nil {
					return fail(err)
				}
				if word == "loops" {
					cs.Many = true
					cs.Site = cur.Name
					if i := strings.LastIndex(cs.Site, "."); i >= 0 {
						cs.Site = cs.Site[i+1:]
					}
				}
				cur.Calls = append(cur.Calls, cs)
			case "until":
				if len(cur.Calls) == 0 || !cur.Calls[len(cur.Calls)-1].Many {
					return fail(fmt.Errorf("until without loops"))
				}
				c, err := parseClause(rest)
				if err != nil {
					return fail(err)
				}
				cs := cur.Calls[len(cur.Calls)-1]
				cs.Until = append(cs.Until, c)
			case "where":
				if len(cur.Calls) == 0 {
					return fail(fmt.Errorf("where without calls"))
				}
				c, err := parseClause(rest)
				if err != nil {
					return fail(err)
				}
				cs := cur.Calls[len(cur.Calls)-1]
				cs.Where = append(cs.Where, c)
			case "trusted":
				cur.Trusted = true
			case "pure":
				cur.Pure = true
			case "nobody":
				cur.NoBody = true
			case "inline":
				cur.Inline = true
			case "ints":
				cur.BV = strings.TrimSpace(rest) == "bv64"
			case "opt":
				w2, r2 := splitWord(rest)
				cur.Opts[w2] = r2
			default:
				return fail(fmt.Errorf("unknown clause %q", word))
			}
		}
	}
	return nil
}

// checkHint: a hint may only consist of unfold(...) instances (valid by
// definition of the recursive spec function), so assuming it is sound.
func checkHint(x ast.Expr) error {
	switch n := x.(type) {
	case *ast.ParenExpr:
		return checkHint(n.X)
	case *ast.BinaryExpr:
		if n.Op.String() == "&&" {
			if err := checkHint(n.X); err != nil {
				return err
			}
			return checkHint(n.Y)
		}
	case *ast.CallExpr:
		if id, ok := n.Fun.(*ast.Ident); ok && id.Name == "unfold" {
			return nil
		}
	}
	return fmt.Errorf("a hint must be a conjunction of unfold(f(args)) instances")
}

func splitWord(s string) (string, string) {
	s = strings.TrimSpace(s)
	i := strings.IndexAny(s, " \t")
	if i < 0 {
		return s, ""
	}
	return s[:i], strings.TrimSpace(s[i+1:])
}

// LoadContracts reads verif_contracts.go of every loaded package and all
// *.spec files in specDir.
func (e *Engine) LoadContracts(specDir string) error {
	for _, p := range e.Pkgs {
		if len(p.GoFiles) == 0 {
			continue
		}
		dir := filepath.Dir(p.GoFiles[0])
		ms, _ := filepath.Glob(filepath.Join(dir, "verif_contracts*.go"))
		for _, f := range ms {
			if err := e.LoadContractFile(f, p.PkgPath); err != nil {
				return err
			}
		}
	}
	if specDir != "" {
		fs, _ := filepath.Glob(filepath.Join(specDir, "*.spec"))
		for _, f := range fs {
			if err := e.LoadContractFile(f, ""); err != nil {
				return err
			}
		}
	}
	return nil
}
