package gowp

import (
	"go/types"

	"golang.org/x/tools/go/ssa"
)

// errors.As(err, &target): whether some error in err's chain has the target
// type is left open (wrapping is abstracted, A8), except that a nil error has
// no chain. When it succeeds the target variable holds a non-nil value that
// is not an error built by a plain constructor of the verified code unless
// err itself is one; otherwise the target is unchanged.
func errorsAs(e *Engine, st *State, instr ssa.Instruction, fn *ssa.Function, args []*Val, k func(st *State, res *Val)) bool {
	if len(args) != 2 {
		return false
	}
	tgt := args[1]
	// target is passed as interface{} holding a pointer
	if tgt.Dyn != nil {
		tgt = tgt.Dyn
	}
	pt, ok := tgt.Ty.Underlying().(*types.Pointer)
	if !ok {
		return false
	}
	if _, isIface := pt.Elem().Underlying().(*types.Interface); !isIface {
		if _, isPtr := pt.Elem().Underlying().(*types.Pointer); !isPtr {
			return false
		}
	}
	a := e.addrOf(tgt)
	b := e.freshName("errorsAs")
	st.declare(b, "Bool")
	st.assume(implies(eq(args[0].T, "0"), not(b)))
	nv := e.freshVal(st, "asTarget", pt.Elem())
	st.assume(not(eq(nv.T, "0")))
	e.declOnce("fun:isErrSite", "(declare-fun isErrSite (Int) Bool)")
	// the found error is err itself or something err wraps
	st.assume(implies(sx("isErrSite", nv.T), sx("isErrSite", args[0].T)))
	// errors.As looks at err itself first
	if it, isIface := pt.Elem().Underlying().(*types.Interface); isIface && it.NumMethods() > 0 {
		impl := sx(e.implementsPred(pt.Elem()), sx("typeof", args[0].T))
		st.assume(implies(and(not(eq(args[0].T, "0")), impl), and(b, eq(nv.T, args[0].T))))
		// a chain of plain constructor errors holds nothing else
		e.declOnce("fun:isPlainErr", "(declare-fun isPlainErr (Int) Bool)")
		st.assume(implies(and(sx("isPlainErr", args[0].T), not(impl)), not(b)))
	}
	old := e.load(st, a)
	e.store(st, a, ite(b, nv.T, old))
	k(st, &Val{T: b, Ty: tBool})
	return true
}

func init() {
	hofInit = append(hofInit, func() {
		externs["errors.As"] = errorsAs
		externs["github.com/pkg/errors.As"] = errorsAs
	})
}
