package gowp

import (
	"fmt"
	"go/types"
)

// notePrivType records the Go type of a fresh reference (pointer type of an
// allocation, slice type of a region, map type).
func (e *Engine) notePrivType(ref string, t types.Type) {
	if e.privTypes == nil {
		e.privTypes = map[string]types.Type{}
	}
	e.privTypes[ref] = t
}

// setTypeDeps: a value of Go type t can (by type safety) only hold those
// private references whose own type fits into t.
func (e *Engine) setTypeDeps(st *State, name string, t types.Type) {
	var deps []string
	for r := range st.priv {
		rt, ok := e.privTypes[r]
		if !ok || canHold(t, rt, 0) {
			if traceInline {
				fmt.Printf("typedeps: value of type %v may hold private %s (type known=%v %v)\n", t, r, ok, rt)
			}
			deps = append(deps, r)
		}
	}
	if e.refDeps == nil {
		e.refDeps = map[string][]string{}
	}
	e.refDeps[name] = deps
}

// canHold: may a value of type t contain a reference of type rt?
func canHold(t, rt types.Type, depth int) bool {
	if depth > 6 {
		return true
	}
	t = types.Unalias(t)
	if types.Identical(t, rt) {
		return true
	}
	switch u := t.Underlying().(type) {
	case *types.Basic:
		return u.Kind() == types.UnsafePointer
	case *types.Interface:
		return types.Implements(rt, u)
	case *types.Pointer:
		return types.Identical(u, rt.Underlying())
	case *types.Slice:
		if rs, ok := rt.Underlying().(*types.Slice); ok {
			return types.Identical(u.Elem(), rs.Elem())
		}
		return false
	case *types.Map:
		return types.Identical(u, rt.Underlying())
	case *types.Struct:
		for i := 0; i < u.NumFields(); i++ {
			if canHold(u.Field(i).Type(), rt, depth+1) {
				return true
			}
		}
		return false
	case *types.Array:
		return canHold(u.Elem(), rt, depth+1)
	case *types.Signature:
		// function values represented as terms come from outside (parameters,
		// results of unknown calls); closures created by the verified
		// function are engine-level values, and their bindings escape when
		// such a closure is stored into memory (see Store)
		return false
	case *types.Chan:
		return true
	}
	return true
}

// isPrivateValue: the value just stored (a slice, map or pointer) refers to
// an object that is private.
func (e *Engine) isPrivateValue(st *State, term string, t types.Type) bool {
	if t == nil {
		return false
	}
	switch t.Underlying().(type) {
	case *types.Slice:
		return e.isPrivateRef(st, sx("sl_reg", term))
	case *types.Map, *types.Pointer:
		return e.isPrivateRef(st, term)
	}
	return false
}
