package gowp

import (
	"fmt"
	"go/types"
)

// Facts tying the uninterpreted predicates implements$I(typeid) to the type
// ids of concrete types that have been boxed: the Go type checker decides
// them (types.Implements); each (interface, concrete type) pair is asserted
// once, globally.
func (e *Engine) noteIfacePred(t types.Type) {
	if e.ifacePreds == nil {
		e.ifacePreds = map[string]types.Type{}
	}
	k := typeKey(t)
	if _, ok := e.ifacePreds[k]; ok {
		return
	}
	e.ifacePreds[k] = t
	for _, ct := range e.boxedTypes {
		e.implFact(t, ct)
	}
}

func (e *Engine) noteBoxedType(t types.Type) {
	if e.boxedTypes == nil {
		e.boxedTypes = map[string]types.Type{}
	}
	k := typeKey(t)
	if _, ok := e.boxedTypes[k]; ok {
		return
	}
	e.boxedTypes[k] = t
	for _, it := range e.ifacePreds {
		e.implFact(it, t)
	}
}

func (e *Engine) implFact(it, ct types.Type) {
	iface, ok := it.Underlying().(*types.Interface)
	if !ok {
		return
	}
	if _, isIface := ct.Underlying().(*types.Interface); isIface {
		return
	}
	if _, isTP := ct.(*types.TypeParam); isTP {
		return
	}
	p := quoteSym("implements$" + typeKey(it))
	f := fmt.Sprintf("(%s %d)", p, e.typeID(ct))
	if !types.Implements(ct, iface) {
		f = "(not " + f + ")"
	}
	e.declOnce("implfact:"+typeKey(it)+"|"+typeKey(ct), "(assert "+f+")")
}
