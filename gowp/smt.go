package gowp

import (
	"bytes"
	"context"
	"fmt"
	"os"
	"os/exec"
	"path/filepath"
	"strings"
	"sync"
	"time"
)

// SolverResult is the outcome of one obligation query.
type SolverResult struct {
	Status  string // unsat | sat | unknown
	Backend string
	Seconds float64
	Model   string // raw model text when sat
	Raw     string // raw solver output (first lines) when not unsat
}

type solverSpec struct {
	name string
	args func(timeoutMs int) []string
	pre  func(q string) string
}

func z3pre(q string) string { return q }

// cvc5 needs (set-logic ALL) and produce-models before anything else.
func cvc5pre(q string) string {
	return "(set-option :produce-models true)\n(set-logic ALL)\n" + q
}

var solvers = []solverSpec{
	{"z3-new", func(t int) []string { return []string{"z3-new", "-in", fmt.Sprintf("-t:%d", t)} }, z3pre},
	{"z3", func(t int) []string { return []string{"z3", "-in", fmt.Sprintf("-t:%d", t)} }, z3pre},
	{"cvc5", func(t int) []string {
		return []string{"cvc5", "--lang=smt2", fmt.Sprintf("--tlimit-per=%d", t), "--incremental", "--fp-exp"}
	}, cvc5pre},
}

// SolverSem bounds the number of concurrently running solver processes.
var SolverSem = make(chan struct{}, 16)

func runOne(ctx context.Context, sp solverSpec, query string, timeoutMs int) SolverResult {
	SolverSem <- struct{}{}
	defer func() { <-SolverSem }()

	if ctx.Err() != nil {
		return SolverResult{Status: "unknown", Backend: sp.name, Raw: "cancelled"}
	}
	t0 := time.Now()
	args := sp.args(timeoutMs)
	cctx, cancel := context.WithTimeout(ctx, time.Duration(timeoutMs+2000)*time.Millisecond)
	defer cancel()
	cmd := exec.CommandContext(cctx, args[0], args[1:]...)
	cmd.Stdin = strings.NewReader(sp.pre(query))
	var out bytes.Buffer
	cmd.Stdout = &out
	cmd.Stderr = &out
	_ = cmd.Run()
	secs := time.Since(t0).Seconds()
	text := out.String()
	first := strings.TrimSpace(text)
	rest := ""
	if i := strings.IndexByte(first, '\n'); i >= 0 {
		rest = first[i+1:]
		first = strings.TrimSpace(first[:i])
	}
	r := SolverResult{Backend: sp.name, Seconds: secs}
	switch first {
	case "unsat":
		r.Status = "unsat"
	case "sat":
		r.Status = "sat"
		r.Model = rest
	default:
		r.Status = "unknown"
		if len(text) > 600 {
			text = text[:600]
		}
		r.Raw = text
	}
	return r
}

// Solve races the installed solvers on one query.  unsat or sat from any
// solver wins; unknown only if all give up.  The query must end with
// (check-sat) (get-model).
func Solve(query string, timeoutMs int, only string) SolverResult {
	if only == "" && timeoutMs > 1500 {
		// stage 1: most obligations are easy; try one solver alone first
		// (keeps the CPU for the other obligations), then race all three
		r := runOne(context.Background(), solvers[2], query, 1500)
		if r.Status == "unsat" || r.Status == "sat" {
			return r
		}
	}
	ctx, cancel := context.WithCancel(context.Background())
	defer cancel()
	ch := make(chan SolverResult, len(solvers))
	n := 0
	for _, sp := range solvers {
		if only != "" && sp.name != only {
			continue
		}
		n++
		go func(sp solverSpec) { ch <- runOne(ctx, sp, query, timeoutMs) }(sp)
	}
	var unk []SolverResult
	total := 0.0
	for i := 0; i < n; i++ {
		r := <-ch
		total += r.Seconds
		if r.Status == "unsat" || r.Status == "sat" {
			return r
		}
		unk = append(unk, r)
	}
	raw := ""
	for _, u := range unk {
		raw += u.Backend + ": " + strings.TrimSpace(u.Raw) + "\n"
	}
	return SolverResult{Status: "unknown", Backend: "all", Seconds: total, Raw: raw}
}

// SolveAll runs every solver to completion and returns all results (used by
// the thorough tier to detect disagreement).
func SolveAll(query string, timeoutMs int) []SolverResult {
	var wg sync.WaitGroup
	res := make([]SolverResult, len(solvers))
	for i, sp := range solvers {
		wg.Add(1)
		go func(i int, sp solverSpec) {
			defer wg.Done()
			res[i] = runOne(context.Background(), sp, query, timeoutMs)
		}(i, sp)
	}
	wg.Wait()
	return res
}

func dumpQuery(dir, name, q string) string {
	_ = os.MkdirAll(dir, 0o755)
	fn := filepath.Join(dir, sanitize(name)+".smt2")
	_ = os.WriteFile(fn, []byte(q), 0o644)
	return fn
}

func sanitize(s string) string {
	var b strings.Builder
	for _, r := range s {
		switch {
		case r >= 'a' && r <= 'z', r >= 'A' && r <= 'Z', r >= '0' && r <= '9', r == '.', r == '-', r == '_', r == '#', r == '@':
			b.WriteRune(r)
		default:
			b.WriteByte('_')
		}
	}
	return b.String()
}

// ---- small term helpers -------------------------------------------------

func sx(op string, args ...string) string {
	return "(" + op + " " + strings.Join(args, " ") + ")"
}

func and(xs ...string) string {
	var ys []string
	for _, x := range xs {
		if x == "true" || x == "" {
			continue
		}
		if x == "false" {
			return "false"
		}
		ys = append(ys, x)
	}
	switch len(ys) {
	case 0:
		return "true"
	case 1:
		return ys[0]
	}
	return sx("and", ys...)
}

func or(xs ...string) string {
	var ys []string
	for _, x := range xs {
		if x == "false" || x == "" {
			continue
		}
		if x == "true" {
			return "true"
		}
		ys = append(ys, x)
	}
	switch len(ys) {
	case 0:
		return "false"
	case 1:
		return ys[0]
	}
	return sx("or", ys...)
}

func not(x string) string {
	switch x {
	case "true":
		return "false"
	case "false":
		return "true"
	}
	if strings.HasPrefix(x, "(not ") && strings.HasSuffix(x, ")") && balanced(x[5:len(x)-1]) {
		return x[5 : len(x)-1]
	}
	return sx("not", x)
}

func balanced(s string) bool {
	d := 0
	for i, c := range s {
		switch c {
		case '(':
			d++
		case ')':
			d--
			if d < 0 {
				return false
			}
			if d == 0 && i != len(s)-1 {
				return false
			}
		case ' ':
			if d == 0 {
				return false
			}
		}
	}
	return d == 0
}

func implies(a, b string) string {
	if a == "true" {
		return b
	}
	if b == "true" || a == "false" {
		return "true"
	}
	return sx("=>", a, b)
}

func ite(c, a, b string) string {
	if c == "true" {
		return a
	}
	if c == "false" {
		return b
	}
	if a == b {
		return a
	}
	return sx("ite", c, a, b)
}

func eq(a, b string) string {
	if a == b {
		return "true"
	}
	return sx("=", a, b)
}

func intLit(v string) string {
	if strings.HasPrefix(v, "-") {
		return "(- " + v[1:] + ")"
	}
	return v
}

func smtString(s string) string {
	var b strings.Builder
	b.WriteByte('"')
	for _, r := range []byte(s) {
		switch {
		case r == '"':
			b.WriteString("\"\"")
		case r >= 0x20 && r < 0x7f && r != '\\':
			b.WriteByte(r)
		default:
			fmt.Fprintf(&b, "\\u{%x}", r)
		}
	}
	b.WriteByte('"')
	return b.String()
}

func quoteSym(s string) string {
	ok := true
	for _, r := range s {
		if !(r >= 'a' && r <= 'z' || r >= 'A' && r <= 'Z' || r >= '0' && r <= '9' || r == '_' || r == '.' || r == '$' || r == '!' || r == '@' || r == '#' || r == '%') {
			ok = false
			break
		}
	}
	if ok && len(s) > 0 && !(s[0] >= '0' && s[0] <= '9') {
		return s
	}
	return "|" + strings.NewReplacer("|", "!", "\\", "!").Replace(s) + "|"
}
