package gowp

import (
	"golang.org/x/tools/go/ssa"
)

// stableFreeVar: the captured variable is assigned at most once in the whole
// closure tree of its top-level function (its initialisation), and its address
// is used for nothing but loads, that store, and capturing. Such a variable
// cannot change while a function literal that captured it runs, whatever code
// the literal calls: its cell keeps its content across calls of unknown code.
func stableFreeVar(fn *ssa.Function, fv *ssa.FreeVar) bool {
	root := fn
	for root.Parent() != nil {
		root = root.Parent()
	}
	stores := 0
	ok := true
	var visit func(f *ssa.Function)
	check := func(v ssa.Value) {
		refs := v.Referrers()
		if refs == nil {
			ok = false
			return
		}
		for _, r := range *refs {
			switch x := r.(type) {
			case *ssa.UnOp, *ssa.DebugRef, *ssa.MakeClosure:
			case *ssa.Store:
				if x.Addr == v && x.Val != v {
					stores++
				} else {
					ok = false
				}
			default:
				ok = false
			}
		}
	}
	visit = func(f *ssa.Function) {
		for _, v := range f.FreeVars {
			if v.Name() == fv.Name() {
				check(v)
			}
		}
		for _, b := range f.Blocks {
			for _, in := range b.Instrs {
				if a, isAlloc := in.(*ssa.Alloc); isAlloc && a.Comment == fv.Name() {
					check(a)
				}
			}
		}
		for _, af := range f.AnonFuncs {
			visit(af)
		}
	}
	visit(root)
	return ok && stores <= 1
}
