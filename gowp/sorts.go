package gowp

import (
	"fmt"
	"go/types"
	"strings"
)

const f64Sort = "(_ FloatingPoint 11 53)"

// sortOf maps a Go type to its SMT sort in the current integer mode.
func (e *Engine) sortOf(t types.Type) string {
	switch u := t.(type) {
	case *types.Alias:
		return e.sortOf(types.Unalias(t))
	case *types.Named:
		if st, ok := u.Underlying().(*types.Struct); ok {
			return e.structSort(u, st)
		}
		return e.sortOf(u.Underlying())
	case *types.Basic:
		switch {
		case u.Info()&types.IsBoolean != 0:
			return "Bool"
		case u.Info()&types.IsInteger != 0:
			return e.intSort(u)
		case u.Info()&types.IsFloat != 0:
			return f64Sort
		case u.Info()&types.IsString != 0:
			return "String"
		case u.Kind() == types.UnsafePointer:
			return "Int"
		case u.Kind() == types.UntypedNil:
			return "Int"
		}
		return "Int"
	case *types.Pointer, *types.Map, *types.Chan, *types.Signature, *types.Interface:
		return "Int"
	case *types.Slice:
		e.declSlice()
		return "Slice"
	case *types.Array:
		return "(Array Int " + e.sortOf(u.Elem()) + ")"
	case *types.Struct:
		return e.structSort(nil, u)
	case *types.TypeParam:
		return "Int"
	case *types.Tuple:
		if u.Len() == 1 {
			return e.sortOf(u.At(0).Type())
		}
	}
	panic(unsupported{fmt.Sprintf("sortOf %T %v", t, t)})
}

func (e *Engine) intSort(b *types.Basic) string {
	if e.bv {
		return fmt.Sprintf("(_ BitVec %d)", intBits(b))
	}
	return "Int"
}

func intBits(b *types.Basic) int {
	switch b.Kind() {
	case types.Int8, types.Uint8:
		return 8
	case types.Int16, types.Uint16:
		return 16
	case types.Int32, types.Uint32:
		return 32
	}
	return 64
}

func isUnsigned(t types.Type) bool {
	b, ok := t.Underlying().(*types.Basic)
	return ok && b.Info()&types.IsUnsigned != 0
}

func isInteger(t types.Type) bool {
	b, ok := t.Underlying().(*types.Basic)
	return ok && b.Info()&types.IsInteger != 0
}

func isFloat(t types.Type) bool {
	b, ok := t.Underlying().(*types.Basic)
	return ok && b.Info()&types.IsFloat != 0
}

func isString(t types.Type) bool {
	b, ok := t.Underlying().(*types.Basic)
	return ok && b.Info()&types.IsString != 0
}

func isBool(t types.Type) bool {
	b, ok := t.Underlying().(*types.Basic)
	return ok && b.Info()&types.IsBoolean != 0
}

func (e *Engine) declSlice() {
	if e.declared["Slice"] {
		return
	}
	e.declared["Slice"] = true
	e.addDecl("(declare-datatypes ((Slice 0)) (((mk_Slice (sl_reg Int) (sl_off Int) (sl_len Int) (sl_cap Int)))))")
}

type structInfo struct {
	sort   string
	ctor   string
	fields []string // accessor names
	ftypes []types.Type
	st     *types.Struct
}

func typeKey(t types.Type) string {
	return types.TypeString(t, func(p *types.Package) string { return p.Name() })
}

func (e *Engine) structSort(n *types.Named, st *types.Struct) string {
	var key string
	if n != nil {
		key = typeKey(n)
	} else {
		key = "anon:" + typeKey(st)
	}
	if si, ok := e.structs[key]; ok {
		return si.sort
	}
	var base string
	if n != nil {
		base = "S$" + key
	} else {
		base = fmt.Sprintf("S$anon%d", len(e.structs))
	}
	si := &structInfo{sort: quoteSym(base), ctor: quoteSym("mk$" + base[2:]), st: st}
	e.structs[key] = si
	e.structBySort[si.sort] = si
	// dependency-first: compute field sorts (declares nested datatypes first)
	var fs []string
	for i := 0; i < st.NumFields(); i++ {
		f := st.Field(i)
		acc := quoteSym(base[2:] + "$" + f.Name())
		if f.Name() == "_" {
			acc = quoteSym(fmt.Sprintf("%s$_%d", base[2:], i))
		}
		si.fields = append(si.fields, acc)
		si.ftypes = append(si.ftypes, f.Type())
		fs = append(fs, fmt.Sprintf("(%s %s)", acc, e.sortOf(f.Type())))
	}
	e.addDecl(fmt.Sprintf("(declare-datatypes ((%s 0)) (((%s %s))))", si.sort, si.ctor, strings.Join(fs, " ")))
	return si.sort
}

func (e *Engine) structInfoOf(t types.Type) *structInfo {
	t = types.Unalias(t)
	st, ok := t.Underlying().(*types.Struct)
	if !ok {
		return nil
	}
	var s string
	if n, ok := t.(*types.Named); ok {
		s = e.structSort(n, st)
	} else {
		s = e.structSort(nil, st)
	}
	return e.structBySort[s]
}

// zeroOf gives the SMT term for the Go zero value of t.
func (e *Engine) zeroOf(t types.Type) string {
	t = types.Unalias(t)
	if si := e.structInfoOf(t); si != nil {
		if len(si.fields) == 0 {
			return si.ctor
		}
		var fs []string
		for _, ft := range si.ftypes {
			fs = append(fs, e.zeroOf(ft))
		}
		return sx(si.ctor, fs...)
	}
	switch u := t.Underlying().(type) {
	case *types.Basic:
		switch {
		case u.Info()&types.IsBoolean != 0:
			return "false"
		case u.Info()&types.IsInteger != 0:
			return e.intConst(t, "0")
		case u.Info()&types.IsFloat != 0:
			return "(_ +zero 11 53)"
		case u.Info()&types.IsString != 0:
			return "\"\""
		}
		return "0"
	case *types.Slice:
		e.declSlice()
		return "(mk_Slice 0 0 0 0)"
	case *types.Array:
		return fmt.Sprintf("((as const %s) %s)", e.sortOf(t), e.zeroOf(u.Elem()))
	}
	return "0"
}

var pow2 = map[int]string{
	8: "256", 16: "65536", 32: "4294967296", 64: "18446744073709551616",
	7: "128", 15: "32768", 31: "2147483648", 63: "9223372036854775808",
}

// rangeOf gives the formula restricting term x to the values a Go value of
// type t can have (integer ranges, slice header sanity), recursively through
// struct fields.
func (e *Engine) rangeOf(x string, t types.Type) string {
	return e.rangeOfD(x, t, 0)
}

func (e *Engine) rangeOfD(x string, t types.Type, depth int) string {
	t = types.Unalias(t)
	if depth > 4 {
		return "true"
	}
	if si := e.structInfoOf(t); si != nil {
		var cs []string
		for i, ft := range si.ftypes {
			cs = append(cs, e.rangeOfD(sx(si.fields[i], x), ft, depth+1))
		}
		return and(cs...)
	}
	switch u := t.Underlying().(type) {
	case *types.Basic:
		if u.Info()&types.IsInteger != 0 && !e.bv {
			bits := intBits(u)
			if u.Info()&types.IsUnsigned != 0 {
				return and(sx("<=", "0", x), sx("<", x, pow2[bits]))
			}
			return and(sx("<=", "(- "+pow2[bits-1]+")", x), sx("<", x, pow2[bits-1]))
		}
	case *types.Slice:
		return and(sx("<=", "0", sx("sl_off", x)), sx("<=", "0", sx("sl_len", x)), sx("<=", sx("sl_len", x), sx("sl_cap", x)),
			sx("<", sx("sl_cap", x), pow2[63]),
			sx("=>", sx("=", sx("sl_reg", x), "0"), sx("=", sx("sl_cap", x), "0")))
	case *types.Pointer, *types.Map, *types.Chan, *types.Interface, *types.Signature:
		return sx("<=", "0", x)
	}
	return "true"
}

func (e *Engine) intConst(t types.Type, v string) string {
	if e.bv {
		if b, ok := t.Underlying().(*types.Basic); ok {
			bits := intBits(b)
			if strings.HasPrefix(v, "-") {
				return fmt.Sprintf("(bvneg (_ bv%s %d))", v[1:], bits)
			}
			return fmt.Sprintf("(_ bv%s %d)", v, bits)
		}
	}
	return intLit(v)
}

// wrap normalises a mathematical integer result into the range of t.
// wrap1 normalises the sum or difference of two in-range values: it is off
// by at most one modulus, so an if-then-else is exact (and much easier for
// the solvers than mod).
func (e *Engine) wrap1(x string, t types.Type) string {
	b, ok := t.Underlying().(*types.Basic)
	if !ok || e.bv {
		return x
	}
	bits := intBits(b)
	m := pow2[bits]
	if b.Info()&types.IsUnsigned != 0 {
		return ite(sx(">=", x, m), sx("-", x, m), ite(sx("<", x, "0"), sx("+", x, m), x))
	}
	h := pow2[bits-1]
	return ite(sx(">=", x, h), sx("-", x, m), ite(sx("<", x, "(- "+h+")"), sx("+", x, m), x))
}

func (e *Engine) wrap(x string, t types.Type) string {
	b, ok := t.Underlying().(*types.Basic)
	if !ok || e.bv {
		return x
	}
	bits := intBits(b)
	if b.Info()&types.IsUnsigned != 0 {
		return sx("mod", x, pow2[bits])
	}
	return sx("-", sx("mod", sx("+", x, pow2[bits-1]), pow2[bits]), pow2[bits-1])
}
