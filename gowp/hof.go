package gowp

import (
	"fmt"
	"go/types"
	"regexp"
	"strings"

	"golang.org/x/tools/go/ssa"
)

// CallSpec: `calls f(a, b) -> r` in a contract of a higher-order function:
// the function-typed parameter f is invoked once with fresh arguments named
// a, b (constrained by the following `where` clauses); its results are named
// r (usable in later where/ensures clauses).
type CallSpec struct {
	Param   string
	Args    []string
	Results []string
	Where   []*Clause
	Text    string
	Many    bool      // `loops`: invoked zero or more times (a traversal)
	Until   []*Clause // the traversal stops after a call for which this holds
	Site    string    // callee name, for the caller's `hof <Callee>#n loop invariant`
}

var reCalls = regexp.MustCompile(`^(\w+)\s*\(([^)]*)\)\s*(->\s*(.*))?$`)

func parseCallSpec(rest string) (*CallSpec, error) {
	m := reCalls.FindStringSubmatch(strings.TrimSpace(rest))
	if m == nil {
		return nil, fmt.Errorf("bad calls clause %q (want: calls f(a, b) -> r)", rest)
	}
	cs := &CallSpec{Param: m[1], Text: rest}
	for _, a := range strings.Split(m[2], ",") {
		if a = strings.TrimSpace(a); a != "" {
			cs.Args = append(cs.Args, a)
		}
	}
	for _, r := range strings.Split(m[4], ",") {
		if r = strings.TrimSpace(r); r != "" {
			cs.Results = append(cs.Results, r)
		}
	}
	return cs, nil
}

// contractCalls runs the callback invocations of a higher-order contract,
// then the continuation with the (possibly forked) state and environment.
func (e *Engine) contractCalls(st *State, instr ssa.Instruction, env *Env, calls []*CallSpec, k func(st *State, env *Env)) {
	if len(calls) == 0 {
		k(st, env)
		return
	}
	cs := calls[0]
	if cs.Many {
		e.contractLoop(st, instr, env, cs, func(st2 *State, env2 *Env) {
			e.contractCalls(st2, instr, env2, calls[1:], k)
		})
		return
	}
	fv, ok := env.names[cs.Param]
	if !ok {
		panic("spec error: calls: no parameter " + cs.Param)
	}
	sig, ok := fv.Ty.Underlying().(*types.Signature)
	if !ok {
		panic("spec error: calls: " + cs.Param + " is not a function")
	}
	if sig.Params().Len() != len(cs.Args) {
		panic(fmt.Sprintf("spec error: calls %s: want %d argument names", cs.Param, sig.Params().Len()))
	}
	nenv := *env
	nenv.names = map[string]*Val{}
	for n, v := range env.names {
		nenv.names[n] = v
	}
	nenv.st, nenv.sink = st, st
	var args []*Val
	for i, an := range cs.Args {
		av := e.freshVal(st, "cb."+an, sig.Params().At(i).Type())
		nenv.names[an] = av
		args = append(args, av)
	}
	for _, w := range cs.Where {
		st.assume(e.evalBool(&nenv, w))
	}
	cont := func(st2 *State, res *Val) {
		e2 := nenv
		e2.names = map[string]*Val{}
		for n, v := range nenv.names {
			e2.names[n] = v
		}
		e2.st, e2.sink = st2, st2
		var rs []*Val
		if res != nil {
			if res.Tup != nil {
				rs = res.Tup
			} else {
				rs = []*Val{res}
			}
		}
		for i, rn := range cs.Results {
			if i < len(rs) {
				e2.names[rn] = rs[i]
			}
		}
		e.contractCalls(st2, instr, &e2, calls[1:], k)
	}
	if fv.Clo == nil {
		// unknown function value: arbitrary effect
		e.unmodelled(st, "funcvalue:"+cs.Param+"@"+e.posOf(instr.Pos()))
		for _, a := range args {
			e.escape(st, a)
		}
		e.havocAllKeepPrivate(st)
		cont(st, e.freshResults(st, "cb", sig))
		return
	}
	e.callFunc(st, instr, fv.Clo.Fn, args, fv.Clo.Bind, nil, cont)
}
