package gowp

import (
	"fmt"
	"go/types"

	"golang.org/x/tools/go/ssa"
)

// contractLoop: `loops f(a, b) -> r` in the contract of a traversal function:
// f is invoked zero or more times with arguments constrained by the `where`
// clauses; the traversal ends when there is nothing left or right after a
// call for which an `until` clause holds.  At the call site this is verified
// as a loop of the caller: invariants come from the caller's contract
// (`hof <Callee>#<n> loop invariant ...`); they may mention `iter` (number
// of completed callback invocations).
func (e *Engine) contractLoop(st *State, instr ssa.Instruction, env *Env, cs *CallSpec, k func(st *State, env *Env)) {
	fv, ok := env.names[cs.Param]
	if !ok {
		panic("spec error: loops: no parameter " + cs.Param)
	}
	sig, ok := fv.Ty.Underlying().(*types.Signature)
	if !ok {
		panic("spec error: loops: " + cs.Param + " is not a function")
	}
	if sig.Params().Len() != len(cs.Args) {
		panic(fmt.Sprintf("spec error: loops %s: want %d argument names", cs.Param, sig.Params().Len()))
	}
	fr := st.top()
	site := e.hofSiteKey(instr, cs.Site)
	ls := e.hofSpec(st.frames[0], site+"/loop") // invariants live in the contract of the function under verification
	pre := st.snapshot()
	e.hofCheck(st, fr, ls, "inv-init", site+"/loop", map[string]*Val{"iter": intVal("0")}, pre)

	// arbitrary point of the traversal
	if fv.Clo != nil {
		e.closureHavoc(st, fv.Clo)
	} else {
		e.havocAllKeepPrivate(st)
	}
	it := e.freshName("iter")
	st.declare(it, "Int")
	st.assume(sx("<=", "0", it))
	bind := map[string]*Val{"iter": intVal(it)}
	e.hofAssume(st, fr, ls, bind, pre)
	st.trace = append(st.trace, site+": arbitrary point of the traversal")

	// (B) nothing left: the traversal ends here
	stB := st.clone()
	envB := *env
	envB.names = map[string]*Val{}
	for n, v := range env.names {
		envB.names[n] = v
	}
	envB.names["iter"] = intVal(it)
	envB.st, envB.sink = stB, stB
	e.runPath(func() { k(stB, &envB) })

	// (A) one more element
	nenv := *env
	nenv.names = map[string]*Val{}
	for n, v := range env.names {
		nenv.names[n] = v
	}
	nenv.names["iter"] = intVal(it)
	nenv.st, nenv.sink = st, st
	var args []*Val
	for i, an := range cs.Args {
		av := e.freshVal(st, "cb."+an, sig.Params().At(i).Type())
		nenv.names[an] = av
		args = append(args, av)
	}
	for _, w := range cs.Where {
		st.assume(e.evalBool(&nenv, w))
	}
	cont := func(st2 *State, res *Val) {
		e2 := nenv
		e2.names = map[string]*Val{}
		for n, v := range nenv.names {
			e2.names[n] = v
		}
		e2.st, e2.sink = st2, st2
		var rs []*Val
		if res != nil {
			if res.Tup != nil {
				rs = res.Tup
			} else {
				rs = []*Val{res}
			}
		}
		for i, rn := range cs.Results {
			if i < len(rs) {
				e2.names[rn] = rs[i]
			}
		}
		e2.names["iter"] = intVal(sx("+", it, "1"))
		stop := "false"
		for _, u := range cs.Until {
			stop = or(stop, e.evalBool(&e2, u))
		}
		// stopped by the callback: the traversal function returns
		if stop != "false" {
			stS := st2.clone()
			stS.branch(stop)
			eS := e2
			eS.st, eS.sink = stS, stS
			e.runPath(func() { k(stS, &eS) })
			st2.branch(not(stop))
		}
		e.hofCheck(st2, st2.top(), ls, "inv-keep", site+"/loop", map[string]*Val{"iter": intVal(sx("+", it, "1"))}, pre)
		e.pathCount++
	}
	if fv.Clo == nil {
		for _, a := range args {
			e.escape(st, a)
		}
		e.unmodelled(st, "funcvalue:"+cs.Param+"@"+e.posOf(instr.Pos()))
		e.havocAllKeepPrivate(st)
		cont(st, e.freshResults(st, "cb", sig))
		return
	}
	e.callFunc(st, instr, fv.Clo.Fn, args, fv.Clo.Bind, nil, cont)
}
