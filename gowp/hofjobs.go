package gowp

import (
	"fmt"
	"go/types"

	"golang.org/x/tools/go/ssa"
)

// runJobWorker: util.RunJobWorker(ctx, workersize, size, f).
//
// Schema (trusted, A7; exercised by the bounded BatchWork stand-in, which
// runs its batches through RunJobWorker): workersize < 1 is an error;
// otherwise f(ctx, i, jobid) runs once for every index i of 0..size-1 in an
// arbitrary order (critical sections of jobs do not interleave); the first
// error stops everything and is returned; nil when every job returned nil.
//
// Verified as a loop of the caller with invariants
// `hof RunJobWorker#<n> loop invariant ...` over jdone (set of finished
// indices), jcount (their number) and, in the preservation check, jjob (the
// index just finished).
func runJobWorker(e *Engine, st *State, instr ssa.Instruction, fn *ssa.Function, args []*Val, k func(st *State, res *Val)) bool {
	if len(args) != 4 || args[3].Clo == nil {
		return false
	}
	fr := st.top()
	site := e.hofSiteKey(instr, "RunJobWorker")
	ls := e.hofSpec(fr, site+"/loop")
	ctx, ws, size, f := args[0], args[1].T, args[2].T, args[3].Clo
	errT := fn.Signature.Results().At(0).Type()
	e.Assumed["A7 util.RunJobWorker schema: every index 0..size-1 once in arbitrary order, first error returned, nil when all jobs returned nil"] = true

	bad := st.clone()
	bad.branch(sx("<", ws, "1"))
	e.runPath(func() { k(bad, &Val{T: e.namedErr("jobworker.size"), Ty: errT}) })
	st.branch(sx(">=", ws, "1"))

	pre := st.snapshot()
	setTy := types.NewArray(tBool, 0)
	empty := "((as const (Array Int Bool)) false)"
	e.hofCheck(st, fr, ls, "inv-init", site+"/loop", map[string]*Val{"jdone": {T: empty, Ty: setTy}, "jcount": intVal("0")}, pre)

	e.closureHavoc(st, f)
	done := e.freshName("jdone")
	st.declare(done, "(Array Int Bool)")
	qj := quoteSym("q$j")
	st.assume(fmt.Sprintf("(forall ((%s Int)) (=> (select %s %s) (and (<= 0 %s) (< %s %s))))", qj, done, qj, qj, qj, size))
	// jcount: the number of finished jobs (the cardinality of jdone)
	cnt := e.freshName("jcount")
	st.declare(cnt, "Int")
	st.assume(and(sx("<=", "0", cnt), sx("<=", cnt, size)))
	bind := map[string]*Val{"jdone": {T: done, Ty: setTy}, "jcount": intVal(cnt)}
	e.hofAssume(st, fr, ls, bind, pre)
	st.trace = append(st.trace, site+": arbitrary point of the job run")

	u64 := types.Typ[types.Uint64]
	// (A) one more job
	stA := st.clone()
	j := e.freshName("jjob")
	stA.declare(j, "Int")
	stA.assume(and(sx("<=", "0", j), sx("<", j, size), not(sx("select", done, j)), sx("<", cnt, size)))
	jobid := e.freshVal(stA, "jobid", u64)
	stA.trace = append(stA.trace, site+": arbitrary unfinished job")
	e.runPath(func() {
		e.callFunc(stA, instr, f.Fn, []*Val{ctx, {T: j, Ty: u64}, jobid}, f.Bind, nil, func(st *State, ferr *Val) {
			fr := st.top()
			st2 := st.clone()
			st2.branch(not(eq(ferr.T, "0")))
			e.runPath(func() { k(st2, ferr) })
			st.branch(eq(ferr.T, "0"))
			bk := map[string]*Val{"jdone": {T: sx("store", done, j, "true"), Ty: setTy}, "jjob": intVal(j), "jcount": intVal(sx("+", cnt, "1"))}
			e.hofCheck(st, fr, ls, "inv-keep", site+"/loop", bk, pre)
			e.pathCount++
		})
	})
	// (B) every job has finished
	st.assume(fmt.Sprintf("(forall ((%s Int)) (=> (and (<= 0 %s) (< %s %s)) (select %s %s)))", qj, qj, qj, size, done, qj))
	st.assume(eq(cnt, ite(sx(">", size, "0"), size, "0")))
	st.trace = append(st.trace, site+": all jobs finished, RunJobWorker returns nil")
	// vacuity guard: the invariants must allow the run to complete
	e.emitCover(st, "cover#"+site+"/complete", "the job run can complete under the stated invariants")
	k(st, &Val{T: "0", Ty: errT})
	return true
}

func init() {
	hofInit = append(hofInit, func() {
		externs[modPath+"/util.RunJobWorker"] = runJobWorker
		externMods[modPath+"/util.RunJobWorker"] = func(e *Engine, call *ssa.CallCommon, ms *modSet) {
			ms.all = true
			ms.why = append(ms.why, "RunJobWorker inside a loop")
		}
	})
}
