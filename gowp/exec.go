package gowp

import (
	"fmt"
	"go/constant"
	"go/token"
	"go/types"
	"sort"
	"strconv"
	"strings"

	"golang.org/x/tools/go/ssa"
)

type Val struct {
	T    string
	Ty   types.Type
	Tup  []*Val
	Clo  *Closure
	Addr *Addr
	Dyn  *Val // statically known dynamic value of an interface value
	Iter *mapIter
}

type Closure struct {
	Fn   *ssa.Function
	Bind []*Val
}

const (
	aCell = iota
	aHeap
	aElem
	aPtr
	aGlobal
)

type pathEl struct {
	Field   int
	Index   string
	IsIndex bool
}

type Addr struct {
	Kind int
	Cell *Cell
	Ref  string
	Idx  string
	Base types.Type // struct type (aHeap), element type (aElem), pointee (aPtr), cell type (aCell), global type
	Glob *ssa.Global
	Path []pathEl
}

type deferred struct {
	instr ssa.Instruction
	call  *ssa.CallCommon
	fnv   *Val
	args  []*Val
	pos   token.Pos
}

type Frame struct {
	fn       *ssa.Function
	vals     map[ssa.Value]*Val
	vars     map[string]*Val
	defers   []deferred
	ret      func(st *State, rets []*Val)
	contract *Contract
	entry    *State
	loopPre  map[*ssa.BasicBlock]*State
	variant  map[*ssa.BasicBlock]string
	depth    int
	params   map[string]*Val
}

func (f *Frame) clone() *Frame {
	n := *f
	n.vals = make(map[ssa.Value]*Val, len(f.vals))
	for k, v := range f.vals {
		n.vals[k] = v
	}
	n.vars = make(map[string]*Val, len(f.vars))
	for k, v := range f.vars {
		n.vars[k] = v
	}
	n.defers = append([]deferred(nil), f.defers...)
	n.loopPre = make(map[*ssa.BasicBlock]*State, len(f.loopPre))
	for k, v := range f.loopPre {
		n.loopPre[k] = v
	}
	n.variant = make(map[*ssa.BasicBlock]string, len(f.variant))
	for k, v := range f.variant {
		n.variant[k] = v
	}
	return &n
}

type pathEnd struct{ reason string }

// ---- memory ---------------------------------------------------------------

func (e *Engine) compName(kind, a, b string) string {
	return quoteSym(kind + "$" + strings.Trim(a, "|") + "$" + strings.Trim(b, "|"))
}

// heapGet returns the current term of a heap component, creating the initial
// (epoch-0 / current-epoch) constant on first use.
func (e *Engine) heapGet(st *State, comp, sort string) string {
	if t, ok := st.heap[comp]; ok {
		return t
	}
	ep := st.ghost["$epoch"]
	if ep != "0" && e.immutableComp(comp) {
		ep = "0" // init-only field: same contents in every epoch
	}
	name := quoteSym(strings.Trim(comp, "|") + "@" + ep)
	e.declOnce("const:"+name, fmt.Sprintf("(declare-const %s %s)", name, sort))
	st.heap[comp] = name
	st.ghost["$sort:"+comp] = sort
	return name
}

func (e *Engine) heapSet(st *State, comp, sort, term string) {
	// name the new version to keep terms small
	n := e.freshName(strings.Trim(comp, "|"))
	st.declare(n, sort)
	st.define(eq(n, term))
	st.heap[comp] = n
	st.ghost["$sort:"+comp] = sort
}

// havocAll forgets the whole heap (unknown callee).
func (e *Engine) havocAll(st *State) {
	e.fresh++
	st.ghost["$epoch"] = fmt.Sprint(e.fresh)
	for k := range st.heap {
		if e.immutableComp(k) {
			continue // init-only field: unknown code cannot assign it (immutable.go)
		}
		delete(st.heap, k)
	}
	// init-only components not touched yet on this path keep their epoch-0 name
	for k, cf := range e.compFields {
		if _, ok := st.heap[k]; !ok && e.immutableComp(k) {
			_, s := e.fieldComp(cf.si, cf.field)
			name := quoteSym(strings.Trim(k, "|") + "@0")
			e.declOnce("const:"+name, fmt.Sprintf("(declare-const %s %s)", name, s))
			st.heap[k] = name
			st.ghost["$sort:"+k] = s
		}
	}
}

func (e *Engine) fieldComp(si *structInfo, i int) (string, string) {
	c := e.compName("H", si.sort, si.st.Field(i).Name())
	e.noteFieldComp(c, si, i)
	return c, "(Array Int " + e.sortOf(si.ftypes[i]) + ")"
}

func (e *Engine) elemComp(t types.Type) (string, string) {
	s := e.sortOf(t)
	return e.compName("E", s, kindTag(t)), "(Array Int (Array Int " + s + "))"
}

func (e *Engine) ptrComp(t types.Type) (string, string) {
	s := e.sortOf(t)
	return e.compName("P", s, kindTag(t)), "(Array Int " + s + ")"
}

// kindTag separates memory components of Go types that share an SMT sort
// (integers, interfaces, pointers, maps are all Int) but can never alias.
func kindTag(t types.Type) string {
	switch u := types.Unalias(t).Underlying().(type) {
	case *types.Interface:
		return "iface"
	case *types.Pointer:
		return "ptr"
	case *types.Map:
		return "map"
	case *types.Signature:
		return "func"
	case *types.Chan:
		return "chan"
	case *types.Basic:
		if u.Info()&types.IsUnsigned != 0 {
			return "u"
		}
	}
	return ""
}

// addrOf turns a pointer-typed value into an address.
func (e *Engine) addrOf(v *Val) *Addr {
	if v.Addr != nil {
		return v.Addr
	}
	pt, ok := v.Ty.Underlying().(*types.Pointer)
	if !ok {
		panic(unsupported{fmt.Sprintf("addrOf non-pointer %v", v.Ty)})
	}
	el := pt.Elem()
	if _, ok := el.Underlying().(*types.Struct); ok {
		return &Addr{Kind: aHeap, Ref: v.T, Base: el}
	}
	if at, ok := el.Underlying().(*types.Array); ok {
		_ = at
		return &Addr{Kind: aPtr, Ref: v.T, Base: el}
	}
	return &Addr{Kind: aPtr, Ref: v.T, Base: el}
}

// addrTerm materialises an address as a pointer term.
func (e *Engine) addrTerm(a *Addr) string {
	if len(a.Path) == 0 && (a.Kind == aHeap || a.Kind == aPtr) {
		return a.Ref
	}
	panic(unsupported{"interior/local pointer escapes as a value"})
}

func (e *Engine) valTerm(v *Val) string {
	if v.Addr != nil {
		return e.addrTerm(v.Addr)
	}
	if v.Clo != nil {
		// a function value used as data: opaque id
		return fmt.Sprint(1000000 + e.typeID(v.Clo.Fn.Signature)) // coarse; functions are never compared except with nil
	}
	if v.T == "" {
		panic(unsupported{"value without term"})
	}
	return v.T
}

func (e *Engine) typeAfter(base types.Type, path []pathEl) types.Type {
	t := base
	for _, p := range path {
		if p.IsIndex {
			t = t.Underlying().(*types.Array).Elem()
		} else {
			t = t.Underlying().(*types.Struct).Field(p.Field).Type()
		}
	}
	return t
}

func (e *Engine) navigate(term string, t types.Type, path []pathEl) string {
	for _, p := range path {
		if p.IsIndex {
			term = sx("select", term, p.Index)
			t = t.Underlying().(*types.Array).Elem()
		} else {
			si := e.structInfoOf(t)
			term = sx(si.fields[p.Field], term)
			t = si.ftypes[p.Field]
		}
	}
	return term
}

func (e *Engine) update(term string, t types.Type, path []pathEl, nv string) string {
	if len(path) == 0 {
		return nv
	}
	p := path[0]
	if p.IsIndex {
		et := t.Underlying().(*types.Array).Elem()
		return sx("store", term, p.Index, e.update(sx("select", term, p.Index), et, path[1:], nv))
	}
	si := e.structInfoOf(t)
	var fs []string
	for i := range si.fields {
		cur := sx(si.fields[i], term)
		if i == p.Field {
			cur = e.update(cur, si.ftypes[i], path[1:], nv)
		}
		fs = append(fs, cur)
	}
	return sx(si.ctor, fs...)
}

func (e *Engine) load(st *State, a *Addr) string {
	switch a.Kind {
	case aCell:
		base, ok := st.cells[a.Cell]
		if !ok {
			panic(unsupported{"load from unknown cell " + a.Cell.name})
		}
		return e.navigate(base, a.Cell.ty, a.Path)
	case aHeap:
		si := e.structInfoOf(a.Base)
		if len(a.Path) == 0 {
			if len(si.fields) == 0 {
				return si.ctor
			}
			var fs []string
			for i := range si.fields {
				c, s := e.fieldComp(si, i)
				fs = append(fs, sx("select", e.heapGet(st, c, s), a.Ref))
			}
			return sx(si.ctor, fs...)
		}
		if a.Path[0].IsIndex {
			panic(unsupported{"index into struct pointer"})
		}
		c, s := e.fieldComp(si, a.Path[0].Field)
		return e.navigate(sx("select", e.heapGet(st, c, s), a.Ref), si.ftypes[a.Path[0].Field], a.Path[1:])
	case aElem:
		c, s := e.elemComp(a.Base)
		return e.navigate(sx("select", sx("select", e.heapGet(st, c, s), a.Ref), a.Idx), a.Base, a.Path)
	case aPtr:
		if at, ok := a.Base.Underlying().(*types.Array); ok {
			// pointer to array: the array lives in the element component of its region
			c, s := e.elemComp(at.Elem())
			arr := sx("select", e.heapGet(st, c, s), a.Ref)
			return e.navigate(arr, a.Base, a.Path)
		}
		c, s := e.ptrComp(a.Base)
		return e.navigate(sx("select", e.heapGet(st, c, s), a.Ref), a.Base, a.Path)
	case aGlobal:
		c := quoteSym("G$" + a.Glob.Pkg.Pkg.Name() + "." + a.Glob.Name())
		return e.navigate(e.heapGet(st, c, e.sortOf(a.Base)), a.Base, a.Path)
	}
	panic("load kind")
}

func (e *Engine) store(st *State, a *Addr, v string) {
	switch a.Kind {
	case aCell:
		base := st.cells[a.Cell]
		st.cells[a.Cell] = e.update(base, a.Cell.ty, a.Path, v)
	case aHeap:
		si := e.structInfoOf(a.Base)
		if len(a.Path) == 0 {
			for i := range si.fields {
				c, s := e.fieldComp(si, i)
				e.heapSet(st, c, s, sx("store", e.heapGet(st, c, s), a.Ref, sx(si.fields[i], v)))
			}
			return
		}
		c, s := e.fieldComp(si, a.Path[0].Field)
		h := e.heapGet(st, c, s)
		nv := e.update(sx("select", h, a.Ref), si.ftypes[a.Path[0].Field], a.Path[1:], v)
		e.heapSet(st, c, s, sx("store", h, a.Ref, nv))
	case aElem:
		if strings.Contains(a.Ref, "arrview!") {
			// A13: a slice of a local / package-level array is a read-only view
			panic(unsupported{"write through a slice of a local or package-level array"})
		}
		c, s := e.elemComp(a.Base)
		h := e.heapGet(st, c, s)
		arr := sx("select", h, a.Ref)
		nv := e.update(sx("select", arr, a.Idx), a.Base, a.Path, v)
		e.heapSet(st, c, s, sx("store", h, a.Ref, sx("store", arr, a.Idx, nv)))
	case aPtr:
		if at, ok := a.Base.Underlying().(*types.Array); ok {
			c, s := e.elemComp(at.Elem())
			h := e.heapGet(st, c, s)
			nv := e.update(sx("select", h, a.Ref), a.Base, a.Path, v)
			e.heapSet(st, c, s, sx("store", h, a.Ref, nv))
			return
		}
		c, s := e.ptrComp(a.Base)
		h := e.heapGet(st, c, s)
		nv := e.update(sx("select", h, a.Ref), a.Base, a.Path, v)
		e.heapSet(st, c, s, sx("store", h, a.Ref, nv))
	case aGlobal:
		c := quoteSym("G$" + a.Glob.Pkg.Pkg.Name() + "." + a.Glob.Name())
		s := e.sortOf(a.Base)
		e.heapSet(st, c, s, e.update(e.heapGet(st, c, s), a.Base, a.Path, v))
	}
}

// allocSet is the ghost set of allocated references.
func (e *Engine) allocGet(st *State) string {
	return e.heapGet(st, "$alloc", "(Array Int Bool)")
}

// rangeSt: rangeOf plus "pointers are allocated or nil".
func (e *Engine) rangeSt(st *State, x string, t types.Type) string {
	r := e.rangeOf(x, t)
	switch t.Underlying().(type) {
	case *types.Pointer, *types.Map:
		r = and(r, or(eq(x, "0"), sx("select", e.allocGet(st), x)))
	case *types.Slice:
		r = and(r, or(eq(sx("sl_reg", x), "0"), sx("select", e.allocGet(st), sx("sl_reg", x))))
	case *types.Struct:
		// references held in the fields of a struct value are allocated too
		r = and(r, e.structRefsAllocated(st, x, t, 0))
	}
	return r
}

func (e *Engine) structRefsAllocated(st *State, x string, t types.Type, depth int) string {
	si := e.structInfoOf(t)
	if si == nil || depth > 3 {
		return "true"
	}
	var cs []string
	for i, ft := range si.ftypes {
		fx := sx(si.fields[i], x)
		switch ft.Underlying().(type) {
		case *types.Pointer, *types.Map:
			cs = append(cs, or(eq(fx, "0"), sx("select", e.allocGet(st), fx)))
		case *types.Slice:
			cs = append(cs, or(eq(sx("sl_reg", fx), "0"), sx("select", e.allocGet(st), sx("sl_reg", fx))))
		case *types.Struct:
			cs = append(cs, e.structRefsAllocated(st, fx, ft, depth+1))
		}
	}
	return and(cs...)
}

func (e *Engine) freshRef(st *State, hint string) string {
	r := e.freshName(hint)
	st.declare(r, "Int")
	al := e.allocGet(st)
	st.assume(and(sx(">", r, "0"), not(sx("select", al, r))))
	e.heapSet(st, "$alloc", "(Array Int Bool)", sx("store", al, r, "true"))
	e.markPrivate(st, r)
	return r
}

// fresh symbolic value of a Go type with its range assumption.
func (e *Engine) freshVal(st *State, hint string, t types.Type) *Val {
	if tup, ok := t.(*types.Tuple); ok {
		v := &Val{Ty: t}
		for i := 0; i < tup.Len(); i++ {
			v.Tup = append(v.Tup, e.freshVal(st, fmt.Sprintf("%s.%d", hint, i), tup.At(i).Type()))
		}
		return v
	}
	n := e.freshName(hint)
	st.declare(n, e.sortOf(t))
	st.assume(e.rangeSt(st, n, t))
	return &Val{T: n, Ty: t}
}

// name binds a term to a fresh constant when it is big.
func (e *Engine) named(st *State, hint, term, sort string) string {
	if len(term) < 48 {
		return term
	}
	n := e.freshName(hint)
	st.declare(n, sort)
	st.define(eq(n, term))
	e.noteDef(n, term)
	return n
}

// ---- values ----------------------------------------------------------------

func (e *Engine) constVal(c *ssa.Const) *Val {
	t := c.Type()
	if c.Value == nil {
		// zero value / nil
		if _, ok := t.Underlying().(*types.Basic); ok && t.Underlying().(*types.Basic).Kind() == types.UntypedNil {
			return &Val{T: "0", Ty: t}
		}
		return &Val{T: e.zeroOf(t), Ty: t}
	}
	switch {
	case isBool(t):
		if constant.BoolVal(c.Value) {
			return &Val{T: "true", Ty: t}
		}
		return &Val{T: "false", Ty: t}
	case isInteger(t):
		return &Val{T: e.intConst(t, constant.ToInt(c.Value).ExactString()), Ty: t}
	case isFloat(t):
		f, _ := constant.Float64Val(c.Value)
		return &Val{T: fpConst(f), Ty: t}
	case isString(t):
		return &Val{T: smtString(constant.StringVal(c.Value)), Ty: t}
	}
	panic(unsupported{fmt.Sprintf("const %v of type %v", c, t)})
}

func fpConst(f float64) string {
	// exact: via bits
	bits := float64bits(f)
	return fmt.Sprintf("((_ to_fp 11 53) #x%016x)", bits)
}

func (e *Engine) get(st *State, v ssa.Value) *Val {
	switch x := v.(type) {
	case *ssa.Const:
		return e.constVal(x)
	case *ssa.Function:
		return &Val{Clo: &Closure{Fn: x}, Ty: x.Type()}
	case *ssa.Global:
		return &Val{Addr: &Addr{Kind: aGlobal, Glob: x, Base: x.Type().(*types.Pointer).Elem()}, Ty: x.Type()}
	case *ssa.Builtin:
		return &Val{T: "builtin:" + x.Name(), Ty: x.Type()}
	}
	fr := st.top()
	if r, ok := fr.vals[v]; ok {
		return r
	}
	panic(unsupported{fmt.Sprintf("value %s (%T) has no binding in %s", v.Name(), v, fr.fn.Name())})
}

func (e *Engine) set(st *State, v ssa.Value, val *Val) {
	if val.Ty == nil {
		val.Ty = v.Type()
	}
	st.top().vals[v] = val
}

func (e *Engine) setTerm(st *State, v ssa.Value, term string) {
	fr := st.top()
	t := v.Type()
	term = e.named(st, fr.fn.Name()+"."+v.Name(), term, e.sortOf(t))
	fr.vals[v] = &Val{T: term, Ty: t}
}

// ---- function verification ---------------------------------------------------

func fnKey(fn *ssa.Function) string {
	if fn.Pkg == nil {
		if fn.Origin() != nil && fn.Origin().Pkg != nil {
			return fn.Origin().Pkg.Pkg.Path() + "." + fn.RelString(fn.Origin().Pkg.Pkg)
		}
		return fn.String()
	}
	return fn.Pkg.Pkg.Path() + "." + fn.RelString(fn.Pkg.Pkg)
}

func (e *Engine) contractFor(fn *ssa.Function) *Contract {
	if c, ok := e.Contracts[fnKey(fn)]; ok {
		return c
	}
	// generic instantiation: fall back to origin's key
	if o := fn.Origin(); o != nil && o != fn {
		if c, ok := e.Contracts[fnKey(o)]; ok {
			return c
		}
		// contracts of generic functions/methods are written without the
		// type parameter list: (*ShardedMap).Value, BlockItemReadersDecode
		if c, ok := e.Contracts[stripTypeArgs(fnKey(o))]; ok {
			return c
		}
	}
	if k := stripTypeArgs(fnKey(fn)); k != fnKey(fn) {
		if c, ok := e.Contracts[k]; ok {
			return c
		}
	}
	return nil
}

func stripTypeArgs(s string) string {
	var b strings.Builder
	d := 0
	for _, r := range s {
		switch {
		case r == '[':
			d++
		case r == ']':
			d--
		case d == 0:
			b.WriteRune(r)
		}
	}
	return b.String()
}

// FindFunc resolves a contract key to the SSA function.
func (e *Engine) FindFunc(c *Contract) *ssa.Function {
	sp := e.SSAPkgs[c.Pkg]
	if sp == nil {
		return nil
	}
	var found *ssa.Function
	visit := func(fn *ssa.Function) {
		if fn == nil || found != nil {
			return
		}
		if fn.RelString(sp.Pkg) == c.Name {
			found = fn
		}
		for _, an := range fn.AnonFuncs {
			if an.RelString(sp.Pkg) == c.Name {
				found = an
			}
			for _, an2 := range an.AnonFuncs {
				if an2.RelString(sp.Pkg) == c.Name {
					found = an2
				}
			}
		}
	}
	for _, m := range sp.Members {
		switch x := m.(type) {
		case *ssa.Function:
			visit(x)
		case *ssa.Type:
			for _, t := range []types.Type{x.Type(), types.NewPointer(x.Type())} {
				ms := e.Prog.MethodSets.MethodSet(t)
				for i := 0; i < ms.Len(); i++ {
					visit(e.Prog.MethodValue(ms.At(i)))
				}
			}
		}
	}
	return found
}

func (e *Engine) newState() *State {
	st := &State{heap: map[string]string{}, cells: map[*Cell]string{}, taint: map[string]bool{}, ghost: map[string]string{}}
	st.ghost["$epoch"] = "0"
	return st
}

// VerifyFunc generates all obligations of one function against its contract.
func (e *Engine) VerifyFunc(fn *ssa.Function, c *Contract, prop string) {
	e.curFunc = fn.RelString(nil)
	if fn.Pkg != nil {
		e.curFunc = fn.Pkg.Pkg.Name() + "." + fn.RelString(fn.Pkg.Pkg)
	}
	e.curProp = prop
	e.bv = c.BV
	e.curContract = c
	e.pathCount = 0
	e.FuncsDone = append(e.FuncsDone, e.curFunc)
	defer func() {
		if r := recover(); r != nil {
			if u, ok := r.(unsupported); ok {
				e.Incomplete = append(e.Incomplete, e.curFunc+": "+u.msg)
				return
			}
			panic(r)
		}
	}()
	if fn.Blocks == nil {
		e.Incomplete = append(e.Incomplete, e.curFunc+": no body")
		return
	}
	// `opt cases decimal1 <param> <lo> <hi>`: verify once per value k/10 of a
	// float64 parameter (each run has a constant threshold, which keeps the
	// arithmetic linear); the union of the cases is the requires decimal1(...)
	if cs, ok := c.Opts["cases"]; ok && caseAssume == "" {
		f := strings.Fields(cs)
		if len(f) == 4 && f[0] == "decimal1" {
			lo, _ := strconv.Atoi(f[2])
			hi, _ := strconv.Atoi(f[3])
			for k := lo; k <= hi; k++ {
				fv, _ := strconv.ParseFloat(fmt.Sprintf("%d.%d", k/10, k%10), 64)
				caseNoCover = k != lo && k != hi
				e.verifyFuncCase(fn, c, prop, f[1], fpConst(fv))
			}
			caseNoCover = false
			e.Assumed[fmt.Sprintf("case split: %s verified separately for each of the %d values %s = k/10, %d <= k <= %d", e.curFunc, hi-lo+1, f[1], lo, hi)] = true
			return
		}
		panic("spec error: bad opt cases")
	}
	st := e.newState()
	fr := &Frame{fn: fn, vals: map[ssa.Value]*Val{}, vars: map[string]*Val{}, contract: c,
		loopPre: map[*ssa.BasicBlock]*State{}, variant: map[*ssa.BasicBlock]string{}, params: map[string]*Val{}}
	st.frames = []*Frame{fr}
	for i, p := range fn.Params {
		v := e.freshVal(st, p.Name(), p.Type())
		fr.vals[p] = v
		fr.params[p.Name()] = v
		if i == 0 && fn.Signature.Recv() != nil {
			if _, ok := p.Type().Underlying().(*types.Pointer); ok {
				st.assume(not(eq(v.T, "0")))
			}
		}
	}
	for _, fv := range fn.FreeVars {
		// a function literal verified on its own: each captured variable is
		// a cell (never nil) holding an arbitrary value of its type; contracts
		// name the variable, i.e. the content of the cell
		v := e.freshVal(st, fv.Name(), fv.Type())
		fr.vals[fv] = v
		fr.params[fv.Name()] = v
		if pt, ok := fv.Type().Underlying().(*types.Pointer); ok {
			st.assume(not(eq(v.T, "0")))
			if stableFreeVar(fn, fv) {
				if st.stable == nil {
					st.stable = map[string]bool{}
				}
				st.stable[v.T] = true
			}
			// distinct variables live in distinct cells
			for _, other := range fn.FreeVars {
				if other == fv {
					break
				}
				if _, optr := other.Type().Underlying().(*types.Pointer); !optr {
					continue
				}
				if ov := fr.vals[other]; ov != nil {
					st.assume(not(eq(v.T, ov.T)))
				}
			}
			if _, isStruct := pt.Elem().Underlying().(*types.Struct); !isStruct {
				if _, isArr := pt.Elem().Underlying().(*types.Array); !isArr {
					fr.params[fv.Name()] = &Val{T: "addr", Addr: e.addrOf(v), Ty: pt.Elem()}
					// the value held by the cell is a value of its type
					// (references it holds are allocated)
					st.assume(e.rangeSt(st, e.load(st, e.addrOf(v)), pt.Elem()))
				}
			}
		}
	}
	e.assertAxioms(st)
	e.assumeGlobals(st)
	for _, u := range c.Uses {
		found := false
		for _, l := range e.Lemmas {
			if l.Name == u {
				found = true
				env := e.specEnv(l.Pkg)
				env.st, env.sink = st, st
				st.assume(e.evalBool(env, l.C))
				e.usedLemmas[u] = true
			}
		}
		if !found {
			panic("spec error: use of unknown lemma " + u)
		}
	}
	fr.entry = st.snapshot()
	env := e.envFor(st, fr)
	for _, rq := range c.Requires {
		st.assume(e.evalBool(env, rq))
	}
	if caseAssume != "" {
		pv, ok := fr.params[caseParam]
		if !ok {
			panic("spec error: opt cases: no parameter " + caseParam)
		}
		st.assume(eq(pv.T, caseAssume))
	}
	// vacuity guard
	ri := &replayInfo{fn: fn, bv: c.BV, heap: map[string]string{}}
	for i, p := range fn.Params {
		ri.params = append(ri.params, Watch{Label: fmt.Sprintf("p%d", i), Term: fr.vals[p].T, Ty: p.Type()})
	}
	for k, v := range fr.entry.heap {
		ri.heap[k] = v
	}
	e.curReplay = ri
	if !caseNoCover {
		e.emitCover(st, "cover#requires", "requires of "+e.curFunc+" are satisfiable")
	}
	if _, ok := c.Opts["deterministic"]; ok {
		e.emitDeterministic(st, fn)
	}
	fr.ret = func(st *State, rets []*Val) {
		e.checkPost(st, fr0(st, fn), c, rets)
	}
	e.callsiteHit = map[string]bool{}
	e.runPath(func() { e.execBlock(st, fn.Blocks[0], nil) })
	e.callsiteUnused(st, c)
}

func fr0(st *State, fn *ssa.Function) *Frame { return st.frames[0] }

var caseAssume, caseParam string
var caseNoCover bool

func (e *Engine) verifyFuncCase(fn *ssa.Function, c *Contract, prop, param, val string) {
	caseAssume, caseParam = val, param
	defer func() { caseAssume, caseParam = "", "" }()
	n := len(e.FuncsDone)
	e.VerifyFunc(fn, c, prop)
	e.FuncsDone = e.FuncsDone[:n]
	if len(e.FuncsDone) == 0 || e.FuncsDone[len(e.FuncsDone)-1] != e.curFunc {
		e.FuncsDone = append(e.FuncsDone, e.curFunc)
	}
}

// runPath runs f, converting unsupported-construct panics into an incomplete
// record for the current function (the path is abandoned).
func (e *Engine) runPath(f func()) {
	defer func() {
		if r := recover(); r != nil {
			switch x := r.(type) {
			case unsupported:
				e.Incomplete = append(e.Incomplete, e.curFunc+": "+x.msg)
			case pathEnd:
			default:
				panic(r)
			}
		}
	}()
	f()
}

func (e *Engine) emitCover(st *State, site, desc string) {
	if e.quiet > 0 {
		return
	}
	o := &Obligation{Name: fmt.Sprintf("%s/%s/%s", e.curProp, e.curFunc, site), Kind: "cover", Func: e.curFunc, Desc: desc, Goal: "false", items: st.items}
	e.Obls = append(e.Obls, o)
}

func (e *Engine) checkPost(st *State, fr *Frame, c *Contract, rets []*Val) {
	env := e.envFor(st, fr)
	env.bindResults(fr.fn, rets)
	saved := e.curReplay
	if saved != nil {
		ri := *saved
		for i, r := range rets {
			if r.T != "" && r.Clo == nil && r.Addr == nil {
				ri.results = append(ri.results, Watch{Label: fmt.Sprintf("r%d", i), Term: r.T, Ty: fr.fn.Signature.Results().At(i).Type()})
			}
		}
		if len(ri.results) == len(rets) {
			e.curReplay = &ri
		}
	}
	defer func() { e.curReplay = saved }()
	if len(c.PostHints) > 0 {
		// definitional instances (unfold) usable by the postconditions
		henv := *env
		henv.assuming = true
		for _, h := range c.PostHints {
			st.assume(e.evalBool(&henv, h))
		}
	}
	for i, en := range c.Ensures {
		label := en.Label
		if label == "" {
			label = fmt.Sprint(i)
		}
		var g string
		if strings.HasPrefix(label, "local-") {
			// helper clause over local variables: skipped on paths where
			// the variable was never assigned
			lenv := *env
			lenv.localsOK = true
			ok := true
			func() {
				defer func() {
					if r := recover(); r != nil {
						if s, isS := r.(string); isS && strings.Contains(s, "unknown identifier") {
							ok = false
							return
						}
						panic(r)
					}
				}()
				g = e.evalBool(&lenv, en)
			}()
			if !ok {
				continue
			}
		} else {
			g = e.evalBool(env, en)
		}
		e.emit(st, "post", "post#"+label, g, "ensures "+en.Text)
		// an established clause may be used for the following ones (same path)
		st.assume(g)
	}
	e.checkFrame(st, fr, c)
	e.pathCount++
}

// ---- block execution ---------------------------------------------------------

type loopInfo struct {
	header  *ssa.BasicBlock
	body    map[*ssa.BasicBlock]bool
	ordinal int
}

func (e *Engine) loopsOf(fn *ssa.Function) map[*ssa.BasicBlock]*loopInfo {
	if li, ok := e.loopCache[fn]; ok {
		return li
	}
	res := map[*ssa.BasicBlock]*loopInfo{}
	for _, b := range fn.Blocks {
		for _, s := range b.Succs {
			if s.Dominates(b) { // back edge b -> s
				li := res[s]
				if li == nil {
					li = &loopInfo{header: s, body: map[*ssa.BasicBlock]bool{s: true}}
					res[s] = li
				}
				// natural loop
				var stack []*ssa.BasicBlock
				if !li.body[b] {
					li.body[b] = true
					stack = append(stack, b)
				}
				for len(stack) > 0 {
					x := stack[len(stack)-1]
					stack = stack[:len(stack)-1]
					for _, p := range x.Preds {
						if !li.body[p] {
							li.body[p] = true
							stack = append(stack, p)
						}
					}
				}
			}
		}
	}
	// ordinals by header block index
	var hs []*ssa.BasicBlock
	for h := range res {
		hs = append(hs, h)
	}
	sort.Slice(hs, func(i, j int) bool { return hs[i].Index < hs[j].Index })
	for i, h := range hs {
		res[h].ordinal = i
	}
	if e.loopCache == nil {
		e.loopCache = map[*ssa.Function]map[*ssa.BasicBlock]*loopInfo{}
	}
	e.loopCache[fn] = res
	return res
}

func (e *Engine) execBlock(st *State, b *ssa.BasicBlock, pred *ssa.BasicBlock) {
	fr := st.top()
	loops := e.loopsOf(fr.fn)
	predIdx := -1
	if pred != nil {
		for i, p := range b.Preds {
			if p == pred {
				predIdx = i
			}
		}
	}
	if li, ok := loops[b]; ok && pred != nil {
		if li.body[pred] {
			// back edge: check invariant with the incoming phi values, stop.
			e.loopBack(st, fr, b, li, predIdx)
			e.pathCount++
			return
		}
		e.loopEnter(st, fr, b, li, predIdx)
	} else {
		// ordinary phis: evaluate all with the old values, then assign
		var nv []*Val
		var ph []*ssa.Phi
		for _, in := range b.Instrs {
			p, ok := in.(*ssa.Phi)
			if !ok {
				break
			}
			ph = append(ph, p)
			nv = append(nv, e.get(st, p.Edges[predIdx]))
		}
		for i, p := range ph {
			fr.vals[p] = nv[i]
			if p.Comment != "" {
				fr.vars[p.Comment] = nv[i]
			}
		}
	}
	e.execFrom(st, b, firstNonPhi(b))
}

func firstNonPhi(b *ssa.BasicBlock) int {
	for i, in := range b.Instrs {
		if _, ok := in.(*ssa.Phi); !ok {
			return i
		}
	}
	return len(b.Instrs)
}

func (e *Engine) execFrom(st *State, b *ssa.BasicBlock, idx int) {
	if e.pathCount > e.PathLimit {
		panic(unsupported{fmt.Sprintf("path limit %d exceeded", e.PathLimit)})
	}
	for i := idx; i < len(b.Instrs); i++ {
		in := b.Instrs[i]
		switch x := in.(type) {
		case *ssa.If:
			c := e.get(st, x.Cond).T
			st.trace = append(st.trace, fmt.Sprintf("%s:b%d if %s", b.Parent().Name(), b.Index, e.posOf(x.Cond.Pos())))
			if c == "true" {
				e.execBlock(st, b.Succs[0], b)
				return
			}
			if c == "false" {
				e.execBlock(st, b.Succs[1], b)
				return
			}
			st2 := st.clone()
			st.branch(c)
			e.runPath(func() { e.execBlock(st, b.Succs[0], b) })
			st2.branch(not(c))
			e.runPath(func() { e.execBlock(st2, st2.top().fn.Blocks[b.Succs[1].Index], st2.top().fn.Blocks[b.Index]) })
			return
		case *ssa.Jump:
			e.execBlock(st, b.Succs[0], b)
			return
		case *ssa.Return:
			var rets []*Val
			for _, r := range x.Results {
				rets = append(rets, e.get(st, r))
			}
			e.doReturn(st, rets)
			return
		case *ssa.Panic:
			e.emit(st, "unreachable-panic", e.site(x, "panic"), "false", "explicit panic is unreachable "+e.posOf(x.Pos()))
			e.pathCount++
			return
		case *ssa.Call:
			// may fork / inline: continue in continuation
			e.doCall(st, x, &x.Call, func(st *State, res *Val) {
				if res != nil {
					e.set(st, x, res)
				}
				e.execFrom(st, st.top().fn.Blocks[b.Index], i+1)
			})
			return
		case *ssa.RunDefers:
			e.runDefers(st, func(st *State) {
				e.execFrom(st, st.top().fn.Blocks[b.Index], i+1)
			})
			return
		case *ssa.Next:
			e.doNext(st, x, func(st *State) {
				e.execFrom(st, st.top().fn.Blocks[b.Index], i+1)
			})
			return
		default:
			e.step(st, in)
		}
	}
}

func (e *Engine) doReturn(st *State, rets []*Val) {
	fr := st.top()
	if len(st.frames) > 1 {
		st.frames = st.frames[:len(st.frames)-1]
	}
	fr.ret(st, rets)
}

func (e *Engine) posOf(p token.Pos) string {
	if !p.IsValid() || e.Fset == nil {
		return ""
	}
	pp := e.Fset.Position(p)
	return fmt.Sprintf("%s:%d", strings.TrimPrefix(pp.Filename, e.RepoDir+"/"), pp.Line)
}

// site gives a stable-ish name for an instruction: kind + ordinal of that
// kind among the instructions of the top-level function being verified.
func (e *Engine) site(in ssa.Instruction, kind string) string {
	fn := in.Parent()
	key := fmt.Sprintf("%p", in)
	full := e.curFunc + "|" + kind + "|" + key
	if n, ok := e.siteOrd[full]; ok {
		return fmt.Sprintf("%s#%d", kind, n)
	}
	// ordinal = count of sites of this kind already named in this function
	ck := e.curFunc + "|" + kind
	n := e.siteOrd[ck]
	e.siteOrd[ck] = n + 1
	e.siteOrd[full] = n
	_ = fn
	return fmt.Sprintf("%s#%d", kind, n)
}

// ---- single instructions ---------------------------------------------------

func (e *Engine) step(st *State, in ssa.Instruction) {
	fr := st.top()
	switch x := in.(type) {
	case *ssa.DebugRef:
		if id, ok := x.Expr.(interface{ String() string }); ok {
			_ = id
		}
		if obj := x.Object(); obj != nil {
			if tv, isVar := obj.(*types.Var); isVar && tv.IsField() {
				return // the field name in a selector x.f is not a variable
			}
			v := e.getOpt(st, x.X)
			if v != nil {
				if x.IsAddr {
					fr.vars[obj.Name()] = &Val{Addr: e.addrOfOpt(v), Ty: v.Ty, T: "addr"}
					if fr.vars[obj.Name()].Addr == nil {
						delete(fr.vars, obj.Name())
					}
				} else if cur, ok := fr.vars[obj.Name()]; ok && cur.T == "addr" && cur.Addr != nil && cur.Addr.Kind != aCell {
					// the variable lives in a heap cell (captured by a closure):
					// its current value is the cell's content, not this definition
				} else {
					fr.vars[obj.Name()] = v
				}
			}
		}
	case *ssa.Alloc:
		et := x.Type().(*types.Pointer).Elem()
		if at, ok := et.Underlying().(*types.Array); ok {
			// arrays live in regions so that they can be sliced
			r := e.freshRef(st, fr.fn.Name()+"."+x.Name())
			e.notePrivType(r, types.NewSlice(at.Elem()))
			c, s := e.elemComp(at.Elem())
			h := e.heapGet(st, c, s)
			e.heapSet(st, c, s, sx("store", h, r, e.zeroOf(et)))
			e.set(st, x, &Val{T: r, Ty: x.Type()})
			return
		}
		if !x.Heap {
			cell := &Cell{id: e.fresh, ty: et, name: x.Comment}
			e.fresh++
			st.cells[cell] = e.zeroOf(et)
			e.set(st, x, &Val{Addr: &Addr{Kind: aCell, Cell: cell, Base: et}, Ty: x.Type()})
			return
		}
		r := e.freshRef(st, fr.fn.Name()+"."+x.Name())
		e.notePrivType(r, x.Type())
		v := &Val{T: r, Ty: x.Type()}
		e.store(st, e.addrOf(v), e.zeroOf(et))
		e.set(st, x, v)
		if x.Comment != "" && x.Comment != "complit" && x.Comment != "varargs" {
			// a source variable that lives on the heap (captured): name -> cell
			fr.vars[x.Comment] = &Val{Addr: e.addrOf(v), Ty: x.Type(), T: "addr"}
		}
	case *ssa.Store:
		a := e.addrOf(e.get(st, x.Addr))
		v := e.get(st, x.Val)
		if v.Clo != nil || v.Iter != nil {
			// closures stored in local cells: keep engine-level
			if a.Kind == aCell && len(a.Path) == 0 {
				if st.cloCells == nil {
					st.cloCells = map[*Cell]*Val{}
				}
				st.cloCells[a.Cell] = v
				return
			}
		}
		e.nilCheck(st, a, x, "store")
		if v.Clo != nil {
			e.escape(st, v) // a closure stored into memory: its bindings escape
		}
		vt := e.valTerm(v)
		if v.Ty == nil || carriesRef(v.Ty, 0) {
			e.escapeStore(st, a, vt)
		}
		if a.Kind == aPtr && len(a.Path) == 0 && st.priv[a.Ref] {
			if st.privClean == nil {
				st.privClean = map[string]bool{}
			}
			st.privClean[a.Ref] = (v.Ty != nil && !carriesRef(v.Ty, 0)) || !e.mentionsPrivate(st, vt)
			st.privClean["holds:"+a.Ref] = e.isPrivateValue(st, vt, v.Ty)
		}
		e.store(st, a, vt)
	case *ssa.UnOp:
		e.unop(st, x)
	case *ssa.BinOp:
		e.binop(st, x)
	case *ssa.FieldAddr:
		base := e.get(st, x.X)
		a := e.addrOf(base)
		e.nilCheck(st, a, x, "field")
		na := *a
		na.Path = append(append([]pathEl(nil), a.Path...), pathEl{Field: x.Field})
		e.set(st, x, &Val{Addr: &na, Ty: x.Type()})
	case *ssa.Field:
		v := e.get(st, x.X)
		si := e.structInfoOf(v.Ty)
		e.setTerm(st, x, sx(si.fields[x.Field], v.T))
	case *ssa.IndexAddr:
		e.indexAddr(st, x)
	case *ssa.Index:
		v := e.get(st, x.X)
		idx := e.get(st, x.Index).T
		if isString(v.Ty) {
			e.emit(st, "bounds", e.site(x, "bounds"), and(sx("<=", "0", idx), sx("<", idx, sx("str.len", v.T))), "string index in range "+e.posOf(x.Pos()))
			e.setTerm(st, x, sx("str.to_code", sx("str.at", v.T, idx)))
			return
		}
		at := v.Ty.Underlying().(*types.Array)
		e.emit(st, "bounds", e.site(x, "bounds"), and(sx("<=", "0", idx), sx("<", idx, fmt.Sprint(at.Len()))), "array index in range "+e.posOf(x.Pos()))
		e.setTerm(st, x, sx("select", v.T, idx))
	case *ssa.Phi:
		panic("phi in step")
	case *ssa.Extract:
		t := e.get(st, x.Tuple)
		if t.Tup == nil {
			panic(unsupported{"extract from non-tuple"})
		}
		e.set(st, x, t.Tup[x.Index])
	case *ssa.MakeClosure:
		var bind []*Val
		for _, b := range x.Bindings {
			bind = append(bind, e.get(st, b))
		}
		e.set(st, x, &Val{Clo: &Closure{Fn: x.Fn.(*ssa.Function), Bind: bind}, Ty: x.Type()})
	case *ssa.MakeInterface:
		e.makeInterface(st, x)
	case *ssa.ChangeInterface:
		v := e.get(st, x.X)
		e.set(st, x, &Val{T: v.T, Ty: x.Type(), Dyn: v.Dyn})
	case *ssa.ChangeType:
		v := e.get(st, x.X)
		if v.Clo != nil {
			e.set(st, x, &Val{Clo: v.Clo, Ty: x.Type()})
			return
		}
		e.set(st, x, &Val{T: e.convertStruct(v.T, v.Ty, x.Type()), Ty: x.Type(), Addr: v.Addr})
	case *ssa.Convert:
		e.convert(st, x)
	case *ssa.TypeAssert:
		e.typeAssert(st, x)
	case *ssa.MakeSlice:
		ln := e.get(st, x.Len).T
		cp := e.get(st, x.Cap).T
		e.emit(st, "bounds", e.site(x, "makeslice"), and(sx("<=", "0", ln), sx("<=", ln, cp)), "make: 0 <= len <= cap "+e.posOf(x.Pos()))
		r := e.freshRef(st, "mk")
		e.notePrivType(r, x.Type())
		et := x.Type().Underlying().(*types.Slice).Elem()
		c, s := e.elemComp(et)
		h := e.heapGet(st, c, s)
		e.heapSet(st, c, s, sx("store", h, r, fmt.Sprintf("((as const (Array Int %s)) %s)", e.sortOf(et), e.zeroOf(et))))
		e.setTerm(st, x, sx("mk_Slice", r, "0", ln, cp))
	case *ssa.MakeMap:
		e.makeMap(st, x)
	case *ssa.MapUpdate:
		e.mapUpdate(st, x)
	case *ssa.Lookup:
		e.lookup(st, x)
	case *ssa.Slice:
		e.sliceOp(st, x)
	case *ssa.Range:
		e.rangeInit(st, x)
	case *ssa.Defer:
		d := deferred{instr: x, call: &x.Call, pos: x.Pos()}
		if !x.Call.IsInvoke() {
			d.fnv = e.getOpt(st, x.Call.Value)
		} else {
			d.fnv = e.get(st, x.Call.Value)
		}
		for _, a := range x.Call.Args {
			d.args = append(d.args, e.get(st, a))
		}
		fr.defers = append(fr.defers, d)
	case *ssa.Go:
		e.doGo(st, x)
	case *ssa.Send, *ssa.Select, *ssa.MakeChan:
		panic(unsupported{"channel operation " + e.posOf(in.Pos())})
	default:
		panic(unsupported{fmt.Sprintf("instruction %T %s", in, e.posOf(in.Pos()))})
	}
}

func (e *Engine) getOpt(st *State, v ssa.Value) (r *Val) {
	defer func() {
		if x := recover(); x != nil {
			if _, ok := x.(unsupported); ok {
				r = nil
				return
			}
			panic(x)
		}
	}()
	return e.get(st, v)
}

func (e *Engine) addrOfOpt(v *Val) (a *Addr) {
	defer func() {
		if x := recover(); x != nil {
			a = nil
		}
	}()
	return e.addrOf(v)
}

func (e *Engine) nilCheck(st *State, a *Addr, in ssa.Instruction, what string) {
	if (a.Kind == aHeap || a.Kind == aPtr) && len(a.Path) == 0 {
		if a.Ref == "0" {
			e.emit(st, "nil", e.site(in, "nil"), "false", "nil dereference ("+what+") "+e.posOf(in.Pos()))
			return
		}
		if strings.HasPrefix(strings.Trim(a.Ref, "|"), "!fresh") {
			return
		}
		e.emit(st, "nil", e.site(in, "nil"), not(eq(a.Ref, "0")), "pointer is non-nil ("+what+") "+e.posOf(in.Pos()))
	}
}

func (e *Engine) unop(st *State, x *ssa.UnOp) {
	v := e.get(st, x.X)
	switch x.Op {
	case token.MUL:
		a := e.addrOf(v)
		if a.Kind == aCell && len(a.Path) == 0 && st.cloCells != nil {
			if cv, ok := st.cloCells[a.Cell]; ok {
				e.set(st, x, cv)
				return
			}
		}
		e.nilCheck(st, a, x, "load")
		t := e.load(st, a)
		fr := st.top()
		ty := x.Type()
		var term string
		if (a.Kind == aPtr || a.Kind == aElem) && e.isPrivateRef(st, a.Ref) {
			// loaded from a private object: the value does not reveal the
			// object's own reference; which private references it can hold is
			// decided by its type (Go type safety)
			term = e.freshName(fr.fn.Name() + "." + x.Name())
			st.declare(term, e.sortOf(ty))
			st.define(eq(term, t))
			e.setTypeDeps(st, term, ty)
		} else {
			term = e.named(st, fr.fn.Name()+"."+x.Name(), t, e.sortOf(ty))
		}
		if a.Kind != aCell {
			st.assume(e.rangeSt(st, term, ty))
		}
		fr.vals[x] = &Val{T: term, Ty: ty}
	case token.NOT:
		e.setTerm(st, x, not(v.T))
	case token.SUB:
		if isFloat(x.Type()) {
			e.setTerm(st, x, sx("fp.neg", v.T))
			return
		}
		if e.bv {
			e.setTerm(st, x, sx("bvneg", v.T))
			return
		}
		e.setTerm(st, x, e.wrap(sx("-", v.T), x.Type()))
	case token.XOR:
		if e.bv {
			e.setTerm(st, x, sx("bvnot", v.T))
			return
		}
		// ^x == -x-1 for signed, max-x for unsigned
		if isUnsigned(x.Type()) {
			b := x.Type().Underlying().(*types.Basic)
			e.setTerm(st, x, sx("-", sx("-", pow2[intBits(b)], "1"), v.T))
		} else {
			e.setTerm(st, x, sx("-", sx("-", v.T), "1"))
		}
	case token.ARROW:
		panic(unsupported{"channel receive " + e.posOf(x.Pos())})
	default:
		panic(unsupported{"unop " + x.Op.String()})
	}
}

func (e *Engine) arith(op token.Token, a, b string, t types.Type) string {
	if isFloat(t) {
		switch op {
		case token.ADD:
			return sx("fp.add", "RNE", a, b)
		case token.SUB:
			return sx("fp.sub", "RNE", a, b)
		case token.MUL:
			return sx("fp.mul", "RNE", a, b)
		case token.QUO:
			return sx("fp.div", "RNE", a, b)
		}
		panic(unsupported{"float op " + op.String()})
	}
	if isString(t) && op == token.ADD {
		return sx("str.++", a, b)
	}
	uns := isUnsigned(t)
	if e.bv {
		switch op {
		case token.ADD:
			return sx("bvadd", a, b)
		case token.SUB:
			return sx("bvsub", a, b)
		case token.MUL:
			return sx("bvmul", a, b)
		case token.QUO:
			if uns {
				return sx("bvudiv", a, b)
			}
			return sx("bvsdiv", a, b)
		case token.REM:
			if uns {
				return sx("bvurem", a, b)
			}
			return sx("bvsrem", a, b)
		case token.AND:
			return sx("bvand", a, b)
		case token.OR:
			return sx("bvor", a, b)
		case token.XOR:
			return sx("bvxor", a, b)
		case token.SHL:
			return sx("bvshl", a, b)
		case token.SHR:
			if uns {
				return sx("bvlshr", a, b)
			}
			return sx("bvashr", a, b)
		case token.AND_NOT:
			return sx("bvand", a, sx("bvnot", b))
		}
		panic(unsupported{"bv op " + op.String()})
	}
	switch op {
	case token.ADD:
		return e.wrap1(sx("+", a, b), t)
	case token.SUB:
		return e.wrap1(sx("-", a, b), t)
	case token.MUL:
		return e.wrap(sx("*", a, b), t)
	case token.QUO:
		if uns {
			return sx("div", a, b)
		}
		return e.wrap(ite(sx(">=", a, "0"), sx("div", a, b), sx("-", sx("div", sx("-", a), b))), t)
	case token.REM:
		if uns {
			return sx("mod", a, b)
		}
		return ite(sx(">=", a, "0"), sx("mod", a, b), sx("-", sx("mod", sx("-", a), b)))
	case token.SHL:
		if k, ok := smallConst(b); ok {
			return e.wrap(sx("*", a, pow2s(k)), t)
		}
	case token.SHR:
		if k, ok := smallConst(b); ok {
			return sx("div", a, pow2s(k))
		}
	case token.AND:
		if k, ok := maskConst(b); ok && uns {
			return sx("mod", a, pow2s(k))
		}
		if k, ok := maskConst(a); ok && uns {
			return sx("mod", b, pow2s(k))
		}
	}
	// uninterpreted (deterministic, sound over-approximation)
	f := "bitop$" + op.String()
	f = quoteSym(strings.NewReplacer("&", "and", "|", "or", "^", "xor", "<<", "shl", ">>", "shr").Replace(f))
	e.declOnce("fun:"+f, fmt.Sprintf("(declare-fun %s (Int Int) Int)", f))
	return sx(f, a, b)
}

func smallConst(s string) (int, bool) {
	var k int
	if _, err := fmt.Sscanf(s, "%d", &k); err == nil && fmt.Sprint(k) == s && k >= 0 && k < 64 {
		return k, true
	}
	return 0, false
}

func maskConst(s string) (int, bool) {
	for k := 1; k < 64; k++ {
		if s == fmt.Sprint((uint64(1)<<uint(k))-1) {
			return k, true
		}
	}
	return 0, false
}

func pow2s(k int) string {
	if k >= 64 {
		return pow2[64]
	}
	return fmt.Sprint(uint64(1) << uint(k))
}

func (e *Engine) compare(op token.Token, a, b string, t types.Type) string {
	switch {
	case isFloat(t):
		switch op {
		case token.EQL:
			return sx("fp.eq", a, b)
		case token.NEQ:
			return not(sx("fp.eq", a, b))
		case token.LSS:
			return sx("fp.lt", a, b)
		case token.LEQ:
			return sx("fp.leq", a, b)
		case token.GTR:
			return sx("fp.gt", a, b)
		case token.GEQ:
			return sx("fp.geq", a, b)
		}
	case isString(t):
		switch op {
		case token.EQL:
			return eq(a, b)
		case token.NEQ:
			return not(eq(a, b))
		case token.LSS:
			return sx("str.<", a, b)
		case token.LEQ:
			return sx("str.<=", a, b)
		case token.GTR:
			return sx("str.<", b, a)
		case token.GEQ:
			return sx("str.<=", b, a)
		}
	case isInteger(t):
		uns := isUnsigned(t)
		if e.bv {
			var o string
			switch op {
			case token.EQL:
				return eq(a, b)
			case token.NEQ:
				return not(eq(a, b))
			case token.LSS:
				o = "bvslt"
				if uns {
					o = "bvult"
				}
			case token.LEQ:
				o = "bvsle"
				if uns {
					o = "bvule"
				}
			case token.GTR:
				o = "bvsgt"
				if uns {
					o = "bvugt"
				}
			case token.GEQ:
				o = "bvsge"
				if uns {
					o = "bvuge"
				}
			}
			return sx(o, a, b)
		}
		switch op {
		case token.EQL:
			return eq(a, b)
		case token.NEQ:
			return not(eq(a, b))
		case token.LSS:
			return sx("<", a, b)
		case token.LEQ:
			return sx("<=", a, b)
		case token.GTR:
			return sx(">", a, b)
		case token.GEQ:
			return sx(">=", a, b)
		}
	default:
		switch op {
		case token.EQL:
			return eq(a, b)
		case token.NEQ:
			return not(eq(a, b))
		}
	}
	panic(unsupported{fmt.Sprintf("compare %s on %v", op, t)})
}

func (e *Engine) binop(st *State, x *ssa.BinOp) {
	a := e.get(st, x.X)
	b := e.get(st, x.Y)
	switch x.Op {
	case token.EQL, token.NEQ, token.LSS, token.LEQ, token.GTR, token.GEQ:
		at := a.Ty
		if _, ok := at.Underlying().(*types.Slice); ok {
			// only comparison with nil
			r := eq(sx("sl_reg", e.sliceTerm(a, b)), "0")
			if x.Op == token.NEQ {
				r = not(r)
			}
			e.setTerm(st, x, r)
			return
		}
		if _, ok := b.Ty.Underlying().(*types.Slice); ok {
			r := eq(sx("sl_reg", b.T), "0")
			if x.Op == token.NEQ {
				r = not(r)
			}
			e.setTerm(st, x, r)
			return
		}
		if a.Clo != nil || b.Clo != nil {
			// func compared with nil
			r := "false"
			if x.Op == token.NEQ {
				r = "true"
			}
			e.setTerm(st, x, r)
			return
		}
		e.setTerm(st, x, e.compare(x.Op, e.valTerm(a), e.valTerm(b), at))
		return
	case token.QUO, token.REM:
		if isInteger(x.Type()) {
			zero := e.intConst(x.Type(), "0")
			if b.T != zero && !isNonZeroLit(b.T) {
				e.emit(st, "div0", e.site(x, "div0"), not(eq(b.T, zero)), "divisor is non-zero "+e.posOf(x.Pos()))
			} else if b.T == zero {
				e.emit(st, "div0", e.site(x, "div0"), "false", "division by constant zero "+e.posOf(x.Pos()))
			}
		}
	case token.SHL, token.SHR:
		// shift count type may differ; in bv mode widen/narrow count to operand width
		if e.bv {
			bt := x.Y.Type().Underlying().(*types.Basic)
			xt := x.X.Type().Underlying().(*types.Basic)
			b = &Val{T: e.bvResize(b.T, intBits(bt), intBits(xt), false), Ty: x.X.Type()}
		}
	}
	e.setTerm(st, x, e.arith(x.Op, a.T, b.T, x.Type()))
}

func isNonZeroLit(s string) bool {
	if s == "" || s == "0" {
		return false
	}
	for _, c := range s {
		if c < '0' || c > '9' {
			return false
		}
	}
	return true
}

func (e *Engine) sliceTerm(a, b *Val) string { return a.T }

func (e *Engine) bvResize(t string, from, to int, signed bool) string {
	if from == to {
		return t
	}
	if from > to {
		return fmt.Sprintf("((_ extract %d 0) %s)", to-1, t)
	}
	if signed {
		return fmt.Sprintf("((_ sign_extend %d) %s)", to-from, t)
	}
	return fmt.Sprintf("((_ zero_extend %d) %s)", to-from, t)
}

func (e *Engine) convertStruct(term string, from, to types.Type) string {
	fs := e.structInfoOf(from)
	ts := e.structInfoOf(to)
	if fs == nil || ts == nil || fs.sort == ts.sort {
		return term
	}
	var args []string
	for i := range fs.fields {
		args = append(args, e.convertStruct(sx(fs.fields[i], term), fs.ftypes[i], ts.ftypes[i]))
	}
	if len(args) == 0 {
		return ts.ctor
	}
	return sx(ts.ctor, args...)
}

func (e *Engine) convert(st *State, x *ssa.Convert) {
	v := e.get(st, x.X)
	from, to := v.Ty.Underlying(), x.Type().Underlying()
	fb, fok := from.(*types.Basic)
	tb, tok := to.(*types.Basic)
	switch {
	case fok && tok && fb.Info()&types.IsInteger != 0 && tb.Info()&types.IsInteger != 0:
		if e.bv {
			e.setTerm(st, x, e.bvResize(v.T, intBits(fb), intBits(tb), fb.Info()&types.IsUnsigned == 0))
			return
		}
		// value-preserving when the source range fits
		fu, tu := fb.Info()&types.IsUnsigned != 0, tb.Info()&types.IsUnsigned != 0
		fbits, tbits := intBits(fb), intBits(tb)
		if (fu == tu && fbits <= tbits) || (fu && !tu && fbits < tbits) {
			e.setTerm(st, x, v.T)
			return
		}
		e.setTerm(st, x, e.wrap(v.T, x.Type()))
	case fok && tok && fb.Info()&types.IsInteger != 0 && tb.Info()&types.IsFloat != 0:
		if e.bv {
			if fb.Info()&types.IsUnsigned != 0 {
				e.setTerm(st, x, sx("(_ to_fp_unsigned 11 53)", "RNE", v.T))
			} else {
				e.setTerm(st, x, sx("(_ to_fp 11 53)", "RNE", v.T))
			}
			return
		}
		e.setTerm(st, x, sx("(_ to_fp 11 53)", "RNE", sx("to_real", v.T)))
	case fok && tok && fb.Info()&types.IsFloat != 0 && tb.Info()&types.IsInteger != 0:
		bits := intBits(tb)
		uns := tb.Info()&types.IsUnsigned != 0
		// Go: out-of-range conversion is implementation-defined; obligation says it is in range
		lo, hi := fpIntBounds(bits, uns)
		e.emit(st, "conv", e.site(x, "conv"), and(not(sx("fp.isNaN", v.T)), sx("fp.gt", v.T, lo), sx("fp.lt", v.T, hi)),
			"float to integer conversion is in range "+e.posOf(x.Pos()))
		if e.bv {
			if uns {
				e.setTerm(st, x, sx(fmt.Sprintf("(_ fp.to_ubv %d)", bits), "RTZ", v.T))
			} else {
				e.setTerm(st, x, sx(fmt.Sprintf("(_ fp.to_sbv %d)", bits), "RTZ", v.T))
			}
			return
		}
		e.setTerm(st, x, sx("to_int", sx("fp.to_real", sx("fp.roundToIntegral", "RTZ", v.T))))
	case fok && tok && fb.Info()&types.IsFloat != 0 && tb.Info()&types.IsFloat != 0:
		e.setTerm(st, x, v.T)
	case fok && tok && fb.Info()&types.IsString != 0 && tb.Info()&types.IsString != 0:
		e.setTerm(st, x, v.T)
	case fok && fb.Info()&types.IsString != 0:
		// string -> []byte / []rune: fresh region whose length is the string length
		if sl, ok := to.(*types.Slice); ok {
			r := e.freshRef(st, "s2b")
			e.notePrivType(r, x.Type())
			ln := sx("str.len", v.T)
			c, s := e.elemComp(sl.Elem())
			h := e.heapGet(st, c, s)
			f := quoteSym("str2arr$" + e.sortOf(sl.Elem()))
			e.declOnce("fun:"+f, fmt.Sprintf("(declare-fun %s (String) (Array Int %s))", f, e.sortOf(sl.Elem())))
			e.heapSet(st, c, s, sx("store", h, r, sx(f, v.T)))
			e.setTerm(st, x, sx("mk_Slice", r, "0", ln, ln))
			return
		}
		panic(unsupported{"convert from string"})
	case tok && tb.Info()&types.IsString != 0:
		if sl, ok := from.(*types.Slice); ok {
			c, s := e.elemComp(sl.Elem())
			h := e.heapGet(st, c, s)
			f := quoteSym("arr2str$" + e.sortOf(sl.Elem()))
			e.declOnce("fun:"+f, fmt.Sprintf("(declare-fun %s ((Array Int %s) Int Int) String)", f, e.sortOf(sl.Elem())))
			t := sx(f, sx("select", h, sx("sl_reg", v.T)), sx("sl_off", v.T), sx("sl_len", v.T))
			n := e.named(st, "b2s", t, "String")
			st.assume(eq(sx("str.len", n), sx("sl_len", v.T)))
			e.setTerm(st, x, n)
			return
		}
		if fok && fb.Info()&types.IsInteger != 0 {
			e.setTerm(st, x, sx("str.from_code", v.T))
			return
		}
		panic(unsupported{"convert to string"})
	default:
		// pointer <-> unsafe.Pointer etc.
		e.set(st, x, &Val{T: v.T, Ty: x.Type(), Addr: v.Addr})
	}
}

func fpIntBounds(bits int, uns bool) (string, string) {
	if uns {
		return fpConst(-1), fpConst(pow2f(bits))
	}
	return fpConst(-pow2f(bits-1) - 1), fpConst(pow2f(bits - 1))
}

func pow2f(k int) float64 {
	f := 1.0
	for i := 0; i < k; i++ {
		f *= 2
	}
	return f
}

func (e *Engine) indexAddr(st *State, x *ssa.IndexAddr) {
	base := e.get(st, x.X)
	idx := e.get(st, x.Index).T
	switch bt := base.Ty.Underlying().(type) {
	case *types.Slice:
		ln := sx("sl_len", base.T)
		e.emit(st, "bounds", e.site(x, "bounds"), and(sx("<=", "0", idx), sx("<", idx, ln)), "slice index in range "+e.posOf(x.Pos()))
		abs := e.at(sx("sl_off", base.T), idx)
		e.set(st, x, &Val{Addr: &Addr{Kind: aElem, Ref: sx("sl_reg", base.T), Idx: abs, Base: bt.Elem()}, Ty: x.Type()})
	case *types.Pointer:
		at := bt.Elem().Underlying().(*types.Array)
		e.emit(st, "bounds", e.site(x, "bounds"), and(sx("<=", "0", idx), sx("<", idx, fmt.Sprint(at.Len()))), "array index in range "+e.posOf(x.Pos()))
		if base.Addr != nil {
			na := *base.Addr
			na.Path = append(append([]pathEl(nil), na.Path...), pathEl{IsIndex: true, Index: idx})
			e.set(st, x, &Val{Addr: &na, Ty: x.Type()})
			return
		}
		e.set(st, x, &Val{Addr: &Addr{Kind: aElem, Ref: base.T, Idx: idx, Base: at.Elem()}, Ty: x.Type()})
	default:
		panic(unsupported{fmt.Sprintf("indexaddr on %v", base.Ty)})
	}
}

func (e *Engine) sliceOp(st *State, x *ssa.Slice) {
	base := e.get(st, x.X)
	var lo, hi, mx string
	if x.Low != nil {
		lo = e.get(st, x.Low).T
	} else {
		lo = "0"
	}
	switch bt := base.Ty.Underlying().(type) {
	case *types.Slice:
		if x.High != nil {
			hi = e.get(st, x.High).T
		} else {
			hi = sx("sl_len", base.T)
		}
		cp := sx("sl_cap", base.T)
		if x.Max != nil {
			mx = e.get(st, x.Max).T
			e.emit(st, "bounds", e.site(x, "slice"), and(sx("<=", "0", lo), sx("<=", lo, hi), sx("<=", hi, mx), sx("<=", mx, cp)), "slice bounds "+e.posOf(x.Pos()))
		} else {
			mx = cp
			e.emit(st, "bounds", e.site(x, "slice"), and(sx("<=", "0", lo), sx("<=", lo, hi), sx("<=", hi, cp)), "slice bounds "+e.posOf(x.Pos()))
		}
		e.setTerm(st, x, sx("mk_Slice", sx("sl_reg", base.T), sx("+", sx("sl_off", base.T), lo), sx("-", hi, lo), sx("-", mx, lo)))
	case *types.Basic: // string
		if x.High != nil {
			hi = e.get(st, x.High).T
		} else {
			hi = sx("str.len", base.T)
		}
		e.emit(st, "bounds", e.site(x, "slice"), and(sx("<=", "0", lo), sx("<=", lo, hi), sx("<=", hi, sx("str.len", base.T))), "string slice bounds "+e.posOf(x.Pos()))
		e.setTerm(st, x, sx("str.substr", base.T, lo, sx("-", hi, lo)))
	case *types.Pointer:
		at := bt.Elem().Underlying().(*types.Array)
		n := fmt.Sprint(at.Len())
		if x.High != nil {
			hi = e.get(st, x.High).T
		} else {
			hi = n
		}
		e.emit(st, "bounds", e.site(x, "slice"), and(sx("<=", "0", lo), sx("<=", lo, hi), sx("<=", hi, n)), "array slice bounds "+e.posOf(x.Pos()))
		if base.Addr != nil {
			// an array that lives in a local variable or a package-level
			// variable (key prefixes, version bytes): the slice is modelled
			// as a view of a fresh region holding the array's current content.
			// A write through such a slice would not be seen in the array
			// (A13: these slices are only read).
			if base.Addr.Kind != aGlobal && base.Addr.Kind != aCell {
				panic(unsupported{"slice of an interior array"})
			}
			e.Assumed["A13 slices of local / package-level arrays are read-only views (copy of the array content at slicing time)"] = true
			arr := e.load(st, base.Addr)
			r := e.freshRef(st, "arrview")
			c, s := e.elemComp(at.Elem())
			e.heapSet(st, c, s, sx("store", e.heapGet(st, c, s), r, arr))
			e.setTerm(st, x, sx("mk_Slice", r, lo, sx("-", hi, lo), sx("-", n, lo)))
			return
		}
		e.setTerm(st, x, sx("mk_Slice", base.T, lo, sx("-", hi, lo), sx("-", n, lo)))
	default:
		panic(unsupported{fmt.Sprintf("slice of %v", base.Ty)})
	}
}

func (e *Engine) typeFuncs() {
	e.declOnce("fun:typeof", "(declare-fun typeof (Int) Int)")
}

func (e *Engine) boxFuncs(t types.Type) (string, string, int) {
	e.typeFuncs()
	k := typeKey(t)
	box := quoteSym("box$" + k)
	unbox := quoteSym("unbox$" + k)
	s := e.sortOf(t)
	e.declOnce("fun:"+box, fmt.Sprintf("(declare-fun %s (%s) Int)", box, s))
	e.declOnce("fun:"+unbox, fmt.Sprintf("(declare-fun %s (Int) %s)", unbox, s))
	e.noteBoxedType(t)
	return box, unbox, e.typeID(t)
}

func (e *Engine) makeInterface(st *State, x *ssa.MakeInterface) {
	v := e.get(st, x.X)
	if _, ok := v.Ty.Underlying().(*types.Interface); ok {
		e.set(st, x, &Val{T: v.T, Ty: x.Type(), Dyn: v.Dyn})
		return
	}
	if v.Clo != nil {
		e.set(st, x, &Val{T: e.valTerm(v), Ty: x.Type(), Dyn: v})
		return
	}
	box, unbox, id := e.boxFuncs(v.Ty)
	vt := e.valTerm(v)
	b := e.named(st, "box", sx(box, vt), "Int")
	st.define(and(eq(sx("typeof", b), fmt.Sprint(id)), eq(sx(unbox, b), vt), sx(">", b, "0")))
	// an error built by a constructor stays one when boxed; a boxed struct
	// value (a switch context ...) is not such an error
	e.declOnce("fun:isErrSite", "(declare-fun isErrSite (Int) Bool)")
	e.declOnce("fun:isPlainErr", "(declare-fun isPlainErr (Int) Bool)")
	if _, isPtr := v.Ty.Underlying().(*types.Pointer); isPtr {
		st.define(eq(sx("isErrSite", b), sx("isErrSite", vt)))
		st.define(eq(sx("isPlainErr", b), sx("isPlainErr", vt)))
	} else {
		st.define(not(sx("isErrSite", b)))
		st.define(not(sx("isPlainErr", b)))
	}
	e.set(st, x, &Val{T: b, Ty: x.Type(), Dyn: &Val{T: vt, Ty: v.Ty, Addr: v.Addr}})
}

func (e *Engine) implementsPred(t types.Type) string {
	e.typeFuncs()
	p := quoteSym("implements$" + typeKey(t))
	e.declOnce("fun:"+p, fmt.Sprintf("(declare-fun %s (Int) Bool)", p))
	e.noteIfacePred(t)
	return p
}

func (e *Engine) typeAssert(st *State, x *ssa.TypeAssert) {
	v := e.get(st, x.X)
	var ok, val string
	_, toIface := x.AssertedType.Underlying().(*types.Interface)
	if v.Dyn != nil && v.Dyn.Clo == nil {
		// statically known dynamic type
		if toIface {
			if types.Implements(v.Dyn.Ty, x.AssertedType.Underlying().(*types.Interface)) {
				ok, val = "true", v.T
			} else {
				ok, val = "false", "0"
			}
		} else if types.Identical(v.Dyn.Ty, x.AssertedType) {
			ok, val = "true", v.Dyn.T
		} else {
			ok, val = "false", e.zeroOf(x.AssertedType)
		}
	} else if toIface {
		it := x.AssertedType.Underlying().(*types.Interface)
		if it.NumMethods() == 0 {
			ok = not(eq(v.T, "0"))
		} else if types.Implements(v.Ty, it) {
			// static type already guarantees it: only nil fails
			ok = not(eq(v.T, "0"))
		} else {
			ok = and(not(eq(v.T, "0")), sx(e.implementsPred(x.AssertedType), sx("typeof", v.T)))
		}
		val = v.T
	} else {
		_, unbox, id := e.boxFuncs(x.AssertedType)
		ok = and(not(eq(v.T, "0")), eq(sx("typeof", v.T), fmt.Sprint(id)))
		val = sx(unbox, v.T)
	}
	if x.CommaOk {
		okn := e.named(st, "ok", ok, "Bool")
		rv := &Val{T: ite(okn, val, e.zeroOf(x.AssertedType)), Ty: x.AssertedType}
		if toIface {
			rv.Dyn = v.Dyn
		}
		e.set(st, x, &Val{Tup: []*Val{rv, {T: okn, Ty: types.Typ[types.Bool]}}, Ty: x.Type()})
		return
	}
	e.emit(st, "typeassert", e.site(x, "typeassert"), ok, "type assertion to "+typeKey(x.AssertedType)+" succeeds "+e.posOf(x.Pos()))
	st.assume(ok)
	rv := &Val{T: val, Ty: x.AssertedType}
	if toIface {
		rv.Dyn = v.Dyn
	} else {
		rv.T = e.named(st, "unboxed", val, e.sortOf(x.AssertedType))
		st.assume(e.rangeSt(st, rv.T, x.AssertedType))
	}
	e.set(st, x, rv)
}
