package gowp

import (
	"fmt"
	"go/types"
	"strings"
)

// Private references.
//
// Objects allocated while the function under verification runs are
// unreachable from everything that existed before (older heap objects,
// function values received as parameters, globals) until a reference to them
// is stored into older memory or passed to code the verifier does not see.
// An unknown call therefore cannot modify them.  The engine tracks, per path,
// the set of still-private fresh references; when the heap is havoc'd for an
// unknown call their contents are carried over.  As soon as any private
// reference may escape, all of them are dropped (sound, coarse).

// refDeps: for a named constant, the fresh references its defining term
// mentions (transitively).  Names are globally unique, so the table is global.
func (e *Engine) noteDef(name, term string) {
	if len(e.allRefs) == 0 {
		return
	}
	var deps []string
	seen := map[string]bool{}
	for _, tok := range smtTokens(term) {
		if e.allRefs[tok] && !seen[tok] {
			seen[tok] = true
			deps = append(deps, tok)
		}
		for _, d := range e.refDeps[tok] {
			if !seen[d] {
				seen[d] = true
				deps = append(deps, d)
			}
		}
	}
	if len(deps) > 0 {
		if e.refDeps == nil {
			e.refDeps = map[string][]string{}
		}
		e.refDeps[name] = deps
	}
}

func smtTokens(s string) []string {
	var out []string
	i := 0
	for i < len(s) {
		c := s[i]
		switch {
		case c == '|':
			j := strings.IndexByte(s[i+1:], '|')
			if j < 0 {
				return out
			}
			out = append(out, s[i:i+j+2])
			i += j + 2
		case c == '"':
			i++
			for i < len(s) && s[i] != '"' {
				i++
			}
			i++
		case c == '(' || c == ')' || c == ' ' || c == '\n' || c == '\t':
			i++
		default:
			j := i
			for j < len(s) && !strings.ContainsRune(" ()\n\t", rune(s[j])) {
				j++
			}
			out = append(out, s[i:j])
			i = j
		}
	}
	return out
}

func (e *Engine) markPrivate(st *State, ref string) {
	if e.allRefs == nil {
		e.allRefs = map[string]bool{}
	}
	e.allRefs[ref] = true
	if st.priv == nil {
		st.priv = map[string]bool{}
	}
	st.priv[ref] = true
}

// mentionsPrivate: does the term (transitively) mention a private reference?
func (e *Engine) mentionsPrivate(st *State, term string) bool {
	if len(st.priv) == 0 {
		return false
	}
	for _, tok := range smtTokens(term) {
		if st.priv[tok] {
			return true
		}
		for _, d := range e.refDeps[tok] {
			if st.priv[d] {
				return true
			}
		}
	}
	return false
}

// escape: the value may become reachable from code outside the verifier's view.
func (e *Engine) escape(st *State, v *Val) {
	if v == nil || len(st.priv) == 0 {
		return
	}
	if v.Tup != nil {
		for _, x := range v.Tup {
			e.escape(st, x)
		}
		return
	}
	if v.Clo != nil {
		for _, b := range v.Clo.Bind {
			e.escape(st, b)
		}
		return
	}
	if v.Ty != nil && v.Addr == nil && !carriesRef(v.Ty, 0) {
		return // an integer, string, ... cannot leak a reference
	}
	t := v.T
	if v.Addr != nil {
		t = v.Addr.Ref + " " + v.Addr.Idx
		if v.Addr.Kind == aCell {
			return
		}
	}
	if e.mentionsPrivate(st, t) {
		if traceInline {
			fmt.Printf("PRIVACY DROPPED: value %s (type %v) escapes\n", t, v.Ty)
		}
		st.priv = nil
	}
}

// escapeStore: a value is written into memory; unless the target itself is
// private (or a local cell), private references in the value escape.
func (e *Engine) escapeStore(st *State, target *Addr, valueTerm string) {
	if len(st.priv) == 0 || target == nil || target.Kind == aCell {
		return
	}
	if target.Kind != aGlobal && target.Ref != "" && e.isPrivateRef(st, target.Ref) {
		return
	}
	if e.mentionsPrivate(st, valueTerm) {
		if traceInline {
			fmt.Printf("PRIVACY DROPPED: %s stored into %s\n", valueTerm, target.Ref)
		}
		st.priv = nil
	}
}

// isPrivateRef: the reference term is (an alias of) exactly one private ref.
func (e *Engine) isPrivateRef(st *State, ref string) bool {
	toks := smtTokens(ref)
	if len(toks) == 0 {
		return false
	}
	// (sl_reg x) of a private slice value, or the ref constant itself
	for _, tok := range toks {
		if tok == "sl_reg" || tok == "select" {
			continue
		}
		if st.priv[tok] {
			continue
		}
		ok := false
		for _, d := range e.refDeps[tok] {
			if st.priv[d] {
				ok = true
			}
		}
		if !ok {
			return false
		}
	}
	return true
}

// havocAllKeepPrivate: forget the heap except the contents of private objects.
func (e *Engine) havocAllKeepPrivate(st *State) {
	type keep struct{ comp, sort, old string }
	var ks []keep
	if len(st.priv) > 0 || len(st.stable) > 0 {
		for c, t := range st.heap {
			srt := st.ghost["$sort:"+c]
			if strings.HasPrefix(srt, "(Array Int ") && !strings.HasPrefix(c, "IT$") {
				ks = append(ks, keep{c, srt, t})
			}
		}
	}
	e.havocAll(st)
	// cells of captured variables that are never re-assigned keep their content
	for _, k := range ks {
		if !strings.HasPrefix(k.comp, "P$") {
			continue
		}
		nw := e.heapGet(st, k.comp, k.sort)
		for r := range st.stable {
			st.assume(eq(sx("select", nw, r), sx("select", k.old, r)))
		}
	}
	for _, k := range ks {
		nw := e.heapGet(st, k.comp, k.sort)
		for r := range st.priv {
			if k.comp == "$alloc" {
				st.assume(sx("select", nw, r))
				continue
			}
			st.assume(eq(sx("select", nw, r), sx("select", k.old, r)))
		}
	}
	// allocation only grows
	if len(ks) > 0 {
		for _, k := range ks {
			if k.comp == "$alloc" {
				nw := e.heapGet(st, k.comp, k.sort)
				qi := quoteSym("q$r")
				st.assume("(forall ((" + qi + " Int)) (=> (select " + k.old + " " + qi + ") (select " + nw + " " + qi + ")))")
			}
		}
	}
}

// carriesRef: can a value of this type hold a reference to a heap object?
func carriesRef(t types.Type, depth int) bool {
	if depth > 6 {
		return true
	}
	switch u := types.Unalias(t).Underlying().(type) {
	case *types.Basic:
		return u.Kind() == types.UnsafePointer
	case *types.Struct:
		for i := 0; i < u.NumFields(); i++ {
			if carriesRef(u.Field(i).Type(), depth+1) {
				return true
			}
		}
		return false
	case *types.Array:
		return carriesRef(u.Elem(), depth+1)
	}
	return true
}

// heapModifies: does the contract modify anything besides ghost state?
func heapModifies(c *Contract) bool {
	for _, m := range c.Modifies {
		for _, loc := range splitTop(m.Text, ',') {
			loc = strings.TrimSpace(loc)
			if loc != "" && loc != "nothing" && !strings.HasPrefix(loc, "ghost:") {
				return true
			}
		}
	}
	return false
}
