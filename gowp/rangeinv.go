package gowp

import (
	"go/token"

	"golang.org/x/tools/go/ssa"
)

// rangeIndexInv: the implicit invariant of a `for i := range slice` loop as
// go/ssa lowers it (phi "rangeindex" = -1 initially; next = phi + 1; loop
// while next < n with n evaluated before the loop): -1 <= rangeindex < n or
// n == 0.  It is emitted as an ordinary invariant (checked on entry and on
// the back edge), so nothing is assumed about the lowering.
func (e *Engine) rangeIndexInv(st *State, fr *Frame, b *ssa.BasicBlock) string {
	for _, in := range b.Instrs {
		p, ok := in.(*ssa.Phi)
		if !ok {
			break
		}
		if p.Comment != "rangeindex" {
			continue
		}
		// find: next = p + 1 ; cond = next < n ; if cond
		for _, in2 := range b.Instrs {
			cmp, ok := in2.(*ssa.BinOp)
			if !ok || cmp.Op != token.LSS {
				continue
			}
			nx, ok := cmp.X.(*ssa.BinOp)
			if !ok || nx.Op != token.ADD || nx.X != ssa.Value(p) {
				continue
			}
			nv, ok := fr.vals[cmp.Y]
			if !ok || nv.T == "" {
				if c, isC := cmp.Y.(*ssa.Const); isC {
					nv = e.constVal(c)
				} else {
					return ""
				}
			}
			pv := fr.vals[p]
			if pv == nil || pv.T == "" {
				return ""
			}
			return and(sx("<=", "(- 1)", pv.T), or(sx("<", pv.T, nv.T), and(eq(pv.T, "(- 1)"), sx("<=", nv.T, "0"))))
		}
	}
	return ""
}
