package gowp

import "golang.org/x/tools/go/ssa"

// funcValueOK: does a called function value provably denote code that the
// determinism scan visits anyway? Function literals and the closures a
// statically known callee returns are visited with their defining function;
// a parameter is an argument (the result may depend on it); anything loaded
// from memory (fields, globals, interfaces) is unknown.
func funcValueOK(v ssa.Value, depth int) bool {
	if depth > 6 {
		return false
	}
	switch x := v.(type) {
	case *ssa.Function, *ssa.MakeClosure, *ssa.Parameter, *ssa.FreeVar:
		return true
	case *ssa.Extract:
		return funcValueOK(x.Tuple, depth+1)
	case *ssa.Call:
		c := x.Common()
		if c.IsInvoke() {
			return false
		}
		callee := c.StaticCallee()
		return callee != nil && callee.Blocks != nil
	case *ssa.Phi:
		for _, ed := range x.Edges {
			if !funcValueOK(ed, depth+1) {
				return false
			}
		}
		return true
	case *ssa.ChangeType:
		return funcValueOK(x.X, depth+1)
	}
	return false
}
