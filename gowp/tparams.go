package gowp

import (
	"go/types"

	"golang.org/x/tools/go/ssa"
)

// typeParamsOf maps the type parameter names of a generic function (or of
// the generic receiver type of a method) to the type arguments of this
// instantiation.
func typeParamsOf(fn *ssa.Function) map[string]types.Type {
	out := map[string]types.Type{}
	o := fn.Origin()
	if o == nil {
		return out
	}
	targs := fn.TypeArgs()
	tps := o.TypeParams()
	if tps != nil {
		for i := 0; i < tps.Len() && i < len(targs); i++ {
			out[tps.At(i).Obj().Name()] = targs[i]
		}
	}
	// methods of generic types: receiver type parameters
	if recv := o.Signature.Recv(); recv != nil {
		rt := recv.Type()
		if p, ok := rt.(*types.Pointer); ok {
			rt = p.Elem()
		}
		if n, ok := types.Unalias(rt).(*types.Named); ok && n.TypeParams() != nil {
			// the instantiated receiver
			if irecv := fn.Signature.Recv(); irecv != nil {
				it := irecv.Type()
				if p, ok := it.(*types.Pointer); ok {
					it = p.Elem()
				}
				if in, ok := types.Unalias(it).(*types.Named); ok && in.TypeArgs() != nil {
					for i := 0; i < n.TypeParams().Len() && i < in.TypeArgs().Len(); i++ {
						out[n.TypeParams().At(i).Obj().Name()] = in.TypeArgs().At(i)
					}
				}
			}
		}
	}
	return out
}
