package gowp

import (
	"fmt"
	"go/ast"
	"go/constant"
	"go/types"
	"strings"

	"golang.org/x/tools/go/ssa"
)

// GlobalSpec: `//@ global <name> maplit` — a package-level map initialised
// by a constant composite literal and never written afterwards. The literal is
// read from the syntax on every run; the read-only claim is an obligation.
type GlobalSpec struct {
	Pkg  string
	Name string
	Kind string
}

// assumeGlobals adds the facts about declared read-only globals to a path.
func (e *Engine) assumeGlobals(st *State) {
	for _, g := range e.Globals {
		sp := e.SSAPkgs[g.Pkg]
		if sp == nil {
			if g.Kind == "nonnil" {
				// a variable of a dependency (io.EOF): an opaque constant, see Env.object
				pn := g.Pkg[strings.LastIndex(g.Pkg, "/")+1:]
				n := quoteSym("G$" + pn + "." + g.Name)
				st.assume(not(eq(e.heapGet(st, n, "Int"), "0")))
				e.declOnce("fun:isErrSite", "(declare-fun isErrSite (Int) Bool)")
				st.assume(not(sx("isErrSite", e.heapGet(st, n, "Int"))))
				e.Assumed[fmt.Sprintf("global %s.%s of a dependency is non-nil and never reassigned (not checked)", pn, g.Name)] = true
			}
			continue
		}
		if g.Kind == "const" {
			gv, ok := sp.Members[g.Name].(*ssa.Global)
			if !ok {
				panic(fmt.Sprintf("spec error: global %s.%s not found", g.Pkg, g.Name))
			}
			a := &Addr{Kind: aGlobal, Glob: gv, Base: gv.Type().(*types.Pointer).Elem()}
			st.assume(eq(e.load(st, a), e.constInit(g)))
			e.Assumed[fmt.Sprintf("global %s.%s holds its constant initial value (checked: no write outside init)", sp.Pkg.Name(), g.Name)] = true
			continue
		}
		if g.Kind == "nonnil" {
			// a package-level func/pointer/interface variable initialised at
			// declaration and never assigned again
			gv, ok := sp.Members[g.Name].(*ssa.Global)
			if !ok {
				panic(fmt.Sprintf("spec error: global %s.%s not found", g.Pkg, g.Name))
			}
			a := &Addr{Kind: aGlobal, Glob: gv, Base: gv.Type().(*types.Pointer).Elem()}
			st.assume(not(eq(e.load(st, a), "0")))
			e.Assumed[fmt.Sprintf("global %s.%s is set at declaration (non-nil) and never assigned again (checked: no write outside init)", sp.Pkg.Name(), g.Name)] = true
			continue
		}
		if g.Kind != "maplit" {
			continue
		}
		gv, ok := sp.Members[g.Name].(*ssa.Global)
		if !ok {
			panic(fmt.Sprintf("spec error: global %s.%s not found", g.Pkg, g.Name))
		}
		mt, ok := gv.Type().(*types.Pointer).Elem().Underlying().(*types.Map)
		if !ok {
			panic(fmt.Sprintf("spec error: global %s is not a map", g.Name))
		}
		keys, vals := e.mapLiteral(g)
		a := &Addr{Kind: aGlobal, Glob: gv, Base: gv.Type().(*types.Pointer).Elem()}
		m := e.load(st, a)
		mv, mvs, mh, mhs := e.mapComps(mt)
		ml, mls := e.mapLenComp()
		hv := sx("select", e.heapGet(st, mv, mvs), m)
		hh := sx("select", e.heapGet(st, mh, mhs), m)
		st.assume(sx(">", m, "0"))
		st.assume(eq(sx("select", e.heapGet(st, ml, mls), m), fmt.Sprint(len(keys))))
		qk := quoteSym("q$k")
		var alts []string
		for i, k := range keys {
			st.assume(and(sx("select", hh, k), eq(sx("select", hv, k), vals[i])))
			alts = append(alts, eq(qk, k))
		}
		st.assume(fmt.Sprintf("(forall ((%s %s)) (=> (select %s %s) %s))", qk, e.sortOf(mt.Key()), hh, qk, or(alts...)))
		e.Assumed[fmt.Sprintf("global %s.%s holds its literal initial value (checked: no write outside init)", sp.Pkg.Name(), g.Name)] = true
	}
}

func (e *Engine) mapLiteral(g *GlobalSpec) (keys, vals []string) {
	for _, p := range e.Pkgs {
		if p.PkgPath != g.Pkg {
			continue
		}
		for _, f := range p.Syntax {
			for _, d := range f.Decls {
				gd, ok := d.(*ast.GenDecl)
				if !ok {
					continue
				}
				for _, s := range gd.Specs {
					vs, ok := s.(*ast.ValueSpec)
					if !ok {
						continue
					}
					for i, n := range vs.Names {
						if n.Name != g.Name || i >= len(vs.Values) {
							continue
						}
						cl, ok := vs.Values[i].(*ast.CompositeLit)
						if !ok {
							panic("spec error: global " + g.Name + " is not initialised by a composite literal")
						}
						for _, el := range cl.Elts {
							kv, ok := el.(*ast.KeyValueExpr)
							if !ok {
								panic("spec error: global " + g.Name + ": non key-value element")
							}
							ktv, vtv := p.TypesInfo.Types[kv.Key], p.TypesInfo.Types[kv.Value]
							if ktv.Value == nil || vtv.Value == nil {
								panic("spec error: global " + g.Name + ": non-constant literal element")
							}
							keys = append(keys, e.constTerm(ktv.Type, ktv.Value))
							vals = append(vals, e.constTerm(vtv.Type, vtv.Value))
						}
						return
					}
				}
			}
		}
	}
	panic("spec error: global " + g.Name + " declaration not found")
}

// constInit reads the constant initialiser of a package-level variable.
func (e *Engine) constInit(g *GlobalSpec) string {
	for _, p := range e.Pkgs {
		if p.PkgPath != g.Pkg {
			continue
		}
		for _, f := range p.Syntax {
			for _, d := range f.Decls {
				gd, ok := d.(*ast.GenDecl)
				if !ok {
					continue
				}
				for _, s := range gd.Specs {
					vs, ok := s.(*ast.ValueSpec)
					if !ok {
						continue
					}
					for i, n := range vs.Names {
						if n.Name != g.Name || i >= len(vs.Values) {
							continue
						}
						tv := p.TypesInfo.Types[vs.Values[i]]
						if tv.Value == nil {
							panic("spec error: global " + g.Name + " has a non-constant initialiser")
						}
						t := p.TypesInfo.Defs[n].Type()
						if isFloat(t) {
							f, _ := constant.Float64Val(tv.Value)
							return fpConst(f)
						}
						return e.constTerm(t, tv.Value)
					}
				}
			}
		}
	}
	panic("spec error: global " + g.Name + " declaration not found")
}

func (e *Engine) constTerm(t types.Type, v constant.Value) string {
	switch {
	case isString(t):
		return smtString(constant.StringVal(v))
	case isBool(t):
		if constant.BoolVal(v) {
			return "true"
		}
		return "false"
	case isInteger(t):
		return e.intConst(t, constant.ToInt(v).ExactString())
	}
	panic(fmt.Sprintf("spec error: constant of type %v", t))
}

// globalReadonly emits the obligation that no function outside the package
// initialiser writes the global or the map it holds.
func (e *Engine) globalReadonly(prop string) {
	for _, g := range e.Globals {
		sp := e.SSAPkgs[g.Pkg]
		if sp == nil {
			continue
		}
		gv, ok := sp.Members[g.Name].(*ssa.Global)
		if !ok {
			continue
		}
		var writes []string
		var visit func(fn *ssa.Function)
		visit = func(fn *ssa.Function) {
			if fn == nil || fn.Blocks == nil {
				return
			}
			if fn.Name() == "init" && fn.Signature.Recv() == nil && fn.Parent() == nil {
				return
			}
			for _, b := range fn.Blocks {
				for _, in := range b.Instrs {
					switch x := in.(type) {
					case *ssa.Store:
						if x.Addr == ssa.Value(gv) {
							writes = append(writes, e.posOf(x.Pos()))
						}
					case *ssa.MapUpdate:
						if isLoadOf(x.Map, gv) {
							writes = append(writes, e.posOf(x.Pos()))
						}
					case ssa.CallInstruction:
						c := x.Common()
						if b, ok := c.Value.(*ssa.Builtin); ok && (b.Name() == "delete" || b.Name() == "clear") && isLoadOf(c.Args[0], gv) {
							writes = append(writes, e.posOf(in.Pos()))
						}
						// the map escaping as an argument is a potential write
						if _, isB := c.Value.(*ssa.Builtin); !isB && g.Kind == "maplit" {
							for _, a := range c.Args {
								if isLoadOf(a, gv) {
									writes = append(writes, "escapes at "+e.posOf(in.Pos()))
								}
							}
						}
					}
				}
			}
			for _, an := range fn.AnonFuncs {
				visit(an)
			}
		}
		for _, spk := range e.SSAPkgs {
			for _, m := range spk.Members {
				switch x := m.(type) {
				case *ssa.Function:
					visit(x)
				case *ssa.Type:
					for _, t := range []types.Type{x.Type(), types.NewPointer(x.Type())} {
						ms := e.Prog.MethodSets.MethodSet(t)
						for i := 0; i < ms.Len(); i++ {
							if f := e.Prog.MethodValue(ms.At(i)); f != nil && f.Synthetic == "" {
								visit(f)
							}
						}
					}
				}
			}
		}
		st := e.newState()
		e.curFunc = "global"
		e.curProp = prop
		goal := "true"
		if len(writes) > 0 {
			goal = "false"
		}
		e.emit(st, "frame", "global-readonly#"+g.Name, goal, "package-level "+g.Name+" is never written outside init "+strings.Join(writes, ","))
	}
}

func isLoadOf(v ssa.Value, g *ssa.Global) bool {
	u, ok := v.(*ssa.UnOp)
	return ok && u.X == ssa.Value(g)
}
