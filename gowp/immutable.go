package gowp

import (
	"go/types"
	"strings"

	"golang.org/x/tools/go/ssa"
	"golang.org/x/tools/go/ssa/ssautil"
)

// Init-only fields.
//
// An unexported struct field can only be assigned by code of its own package.
// If no function of that package stores to the field except into an object it
// has just allocated itself (composite literal / constructor), the field
// never changes after construction, so unknown calls cannot change it either:
// its heap component survives a havoc.  (Go code using reflect/unsafe to write
// unexported fields is outside the model.)

type compFieldInfo struct {
	si    *structInfo
	field int
}

func (e *Engine) noteFieldComp(comp string, si *structInfo, i int) {
	if e.compFields == nil {
		e.compFields = map[string]compFieldInfo{}
	}
	if _, ok := e.compFields[comp]; !ok {
		e.compFields[comp] = compFieldInfo{si, i}
	}
}

func (e *Engine) immutableComp(comp string) bool {
	// package-level variables declared read-only by contract (`global x
	// const|maplit|nonnil`; the no-write obligation is part of every check)
	for _, g := range e.Globals {
		if sp := e.SSAPkgs[g.Pkg]; sp != nil && comp == quoteSym("G$"+sp.Pkg.Name()+"."+g.Name) {
			return true
		} else if sp == nil && comp == quoteSym("G$"+g.Pkg[strings.LastIndex(g.Pkg, "/")+1:]+"."+g.Name) {
			return true
		}
	}
	cf, ok := e.compFields[comp]
	if !ok {
		return false
	}
	if v, ok := e.immutCache[comp]; ok {
		return v
	}
	if e.immutCache == nil {
		e.immutCache = map[string]bool{}
	}
	r := e.fieldInitOnly(cf.si.st, cf.field)
	e.immutCache[comp] = r
	if r {
		e.Assumed["init-only field (no store outside construction in its package): "+cf.si.sort+"."+cf.si.st.Field(cf.field).Name()] = true
	}
	return r
}

func (e *Engine) fieldInitOnly(st *types.Struct, field int) bool {
	f := st.Field(field)
	if f.Exported() || f.Pkg() == nil {
		return false
	}
	sp := e.SSAPkgs[f.Pkg().Path()]
	if sp == nil {
		return false // package not loaded with bodies: cannot tell
	}
	ok := true
	var visit func(fn *ssa.Function)
	seen := map[*ssa.Function]bool{}
	visit = func(fn *ssa.Function) {
		if fn == nil || seen[fn] || !ok {
			return
		}
		seen[fn] = true
		for _, b := range fn.Blocks {
			for _, in := range b.Instrs {
				switch x := in.(type) {
				case *ssa.Store:
					if fa, isFA := x.Addr.(*ssa.FieldAddr); isFA && sameField(fa, st, field) {
						if !freshInFunc(fa.X) {
							ok = false
							return
						}
					}
					// a whole-struct store *p = v overwrites every field
					if pt, isP := x.Addr.Type().Underlying().(*types.Pointer); isP {
						if ps, isS := pt.Elem().Underlying().(*types.Struct); isS && ps == st {
							if !freshInFunc(x.Addr) {
								ok = false
								return
							}
						}
					}
				}
			}
		}
		for _, an := range fn.AnonFuncs {
			visit(an)
		}
	}
	// every function of the package, including methods of generic types and
	// their instantiations (which are not package members)
	if e.allFuncs == nil {
		e.allFuncs = ssautil.AllFunctions(e.Prog)
	}
	for fn := range e.allFuncs {
		p := fn.Pkg
		if p == nil {
			if o := fn.Origin(); o != nil {
				p = o.Pkg
			}
		}
		if p == nil && fn.Parent() != nil {
			continue // closures are visited through their parents
		}
		if p == sp {
			visit(fn)
		}
	}
	return ok
}

func sameField(fa *ssa.FieldAddr, st *types.Struct, field int) bool {
	if fa.Field != field {
		return false
	}
	pt, ok := fa.X.Type().Underlying().(*types.Pointer)
	if !ok {
		return false
	}
	s, ok := pt.Elem().Underlying().(*types.Struct)
	if !ok {
		return false
	}
	if s == st {
		return true
	}
	// generic instantiations have distinct *types.Struct: compare field identity by name/position
	return s.NumFields() == st.NumFields() && s.Field(field).Name() == st.Field(field).Name() && s.Field(field).Pkg() == st.Field(field).Pkg() && s.Field(field).Pos() == st.Field(field).Pos()
}

// freshInFunc: the pointer is an object allocated by this very function
// (construction), possibly reached through field addresses of it.
func freshInFunc(v ssa.Value) bool {
	for {
		switch x := v.(type) {
		case *ssa.Alloc:
			return true
		case *ssa.FieldAddr:
			v = x.X
		default:
			return false
		}
	}
}
