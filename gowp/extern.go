package gowp

import (
	"fmt"
	"go/types"
	"strings"

	"golang.org/x/tools/go/ssa"
)

type externHandler func(e *Engine, st *State, instr ssa.Instruction, fn *ssa.Function, args []*Val, k func(st *State, res *Val)) bool

var externs map[string]externHandler
var externMods map[string]func(e *Engine, call *ssa.CallCommon, ms *modSet)

// packages whose calls are treated as effect-free with opaque results
// (logging; DESIGN §2.3 "what extraction drops").
func isEffectFreePkg(p string) bool {
	switch {
	case p == "github.com/rs/zerolog", strings.HasPrefix(p, "github.com/rs/zerolog/"):
		return true
	case p == modPath+"/util/logging":
		return true
	}
	return false
}

// pure external functions: result is an arbitrary value of its type, no heap effect.
var pureExterns = map[string]bool{
	"fmt.Sprintf": true, "fmt.Sprint": true, "strings.HasPrefix": true, "strings.HasSuffix": true,
	"strings.Contains": true, "strings.Join": true, "strings.Repeat": true, "strings.Count": true,
	"strings.TrimSpace": true, "strings.ToLower": true, "strings.Split": true,
	"strconv.FormatFloat": true, "strconv.Itoa": true, "strconv.FormatInt": true, "strconv.FormatUint": true,
	"time.Now": true, "(time.Time).After": true, "(time.Time).Before": true, "(time.Time).Add": true, "(time.Time).Sub": true,
	"(time.Time).UTC": true, "(time.Time).IsZero": true, "(time.Time).Equal": true, "(time.Time).UnixNano": true, "time.Since": true,
	"context.Background": true, "context.WithCancel": true, "context.WithTimeout": true, "context.Cause": true,
	"context.WithValue": true, "context.WithCancelCause": true,
	"errors.Is": true, "errors.As": true, "github.com/pkg/errors.Is": true, "github.com/pkg/errors.As": true,
	"github.com/pkg/errors.Cause": true,
	"(*sync.Mutex).Lock":          true, "(*sync.Mutex).Unlock": true, "(*sync.RWMutex).Lock": true, "(*sync.RWMutex).Unlock": true,
	"(*sync.RWMutex).RLock": true, "(*sync.RWMutex).RUnlock": true, "(*sync.Mutex).TryLock": true,
	"(*sync.Once).Do": false,
	"math.Log":        true, "math.Pow": true, "math.Log2": true,
	"bytes.Compare": true, "bytes.HasPrefix": true,
	"runtime.Gosched": true,
	"github.com/syndtr/goleveldb/leveldb/util.BytesPrefix": true,
	// sync.Pool: Get returns some value (callers type-assert it), Put hands the object to the pool
	"(*sync.Pool).Put": true, "(*sync.Pool).Get": true,
}

// isErrCtor: functions that build error values. Returns the index of the
// wrapped-error argument (-1: always non-nil).
func errCtorKind(name string) (int, bool) {
	switch name {
	case "errors.New", "fmt.Errorf",
		"github.com/pkg/errors.New", "github.com/pkg/errors.Errorf":
		return -1, true
	case "github.com/pkg/errors.Wrap", "github.com/pkg/errors.Wrapf", "github.com/pkg/errors.WithStack",
		"github.com/pkg/errors.WithMessage", "github.com/pkg/errors.WithMessagef":
		return 0, true
	}
	const u = "(*" + modPath + "/util."
	if strings.HasPrefix(name, u) {
		switch strings.TrimPrefix(name, u) {
		case "baseError).Errorf", "baseError).WithStack", "IDError).Errorf", "IDError).WithStack":
			return -1, true
		case "baseError).Wrap", "baseError).WithMessage", "IDError).Wrap", "IDError).WithMessage":
			return 1, true
		}
	}
	switch name {
	case modPath + "/util.StringError", modPath + "/util.NewIDError", modPath + "/util.NewIDErrorWithID",
		modPath + "/util.NewBaseIDErrorWithID", modPath + "/util.newBaseError":
		return -1, true
	}
	return 0, false
}

func isErrCtor(name string) bool {
	_, ok := errCtorKind(name)
	return ok
}

// errCtor: error constructors return a non-nil error, except the wrappers,
// which return nil for a nil argument (DESIGN 2.3: error wrapping is
// abstracted to "some non-nil error").
func (e *Engine) errCtor(st *State, fn *ssa.Function, args []*Val, instr ssa.Instruction) *Val {
	// one global non-nil constant per construction site: error identity is
	// never observed except through nil-ness (A8), and a constant keeps
	// callers usable as closed terms inside specifications.
	key := fmt.Sprintf("errsite:%p", instr)
	name, ok := e.errSites[key]
	if !ok {
		if e.errSites == nil {
			e.errSites = map[string]string{}
		}
		name = e.freshName("err@" + fn.Name())
		e.errSites[key] = name
		e.addDecl(fmt.Sprintf("(declare-const %s Int)", name))
		e.addDecl(fmt.Sprintf("(assert (> %s 0))", name))
		// errors built here are not sentinels of other packages (io.EOF ...)
		e.declOnce("fun:isErrSite", "(declare-fun isErrSite (Int) Bool)")
		e.addDecl(fmt.Sprintf("(assert (isErrSite %s))", name))
		if _, isIface := fn.Signature.Results().At(0).Type().Underlying().(*types.Interface); isIface {
			// the dynamic type of an error made by errors.New/Errorf/Wrap ...
			// is a private type of the errors package: it implements no
			// interface of the verified code
			e.typeFuncs()
			e.noteBoxedType(types.Typ[types.Invalid])
			e.addDecl(fmt.Sprintf("(assert (= (typeof %s) %d))", name, e.typeID(types.Typ[types.Invalid])))
		}
		// constructors that wrap no other error: errors.As finds nothing
		// but the error itself in such a chain
		e.declOnce("fun:isPlainErr", "(declare-fun isPlainErr (Int) Bool)")
		if k, _ := errCtorKind(fn.String()); k < 0 && fn.String() != "fmt.Errorf" {
			e.addDecl(fmt.Sprintf("(assert (isPlainErr %s))", name))
		}
		switch fn.String() {
		case "errors.New", "github.com/pkg/errors.New", "github.com/pkg/errors.Errorf":
			// no Unwrap, no Is method: such an error Is only itself
			e.declOnce("fun:errIs", "(declare-fun errIs (Int Int) Bool)")
			e.addDecl(fmt.Sprintf("(assert (forall ((b Int)) (! (=> (errIs %s b) (= b %s)) :pattern ((errIs %s b)))))", name, name, name))
		}
	}
	rt := fn.Signature.Results().At(0).Type()
	// util errors: er.Errorf(...), er.Wrap(...) ... Is er (same id)
	if recv := fn.Signature.Recv(); recv != nil && len(args) > 0 && args[0].T != "" && types.Identical(recv.Type(), rt) {
		if _, isPtr := rt.Underlying().(*types.Pointer); isPtr {
			box, _, _ := e.boxFuncs(rt)
			e.declOnce("fun:errIs", "(declare-fun errIs (Int Int) Bool)")
			st.assume(sx("errIs", sx(box, name), sx(box, args[0].T)))
			e.Assumed["A8 util errors: er.Errorf/Wrap/WithMessage/WithStack(...) Is er"] = true
		}
	}
	idx, _ := errCtorKind(fn.String())
	if idx >= 0 && idx < len(args) {
		return &Val{T: ite(eq(args[idx].T, "0"), "0", name), Ty: rt}
	}
	return &Val{T: name, Ty: rt}
}

func init() {
	externs = map[string]externHandler{
		"sort.Slice":       sortSlice,
		"sort.SliceStable": sortSlice,
		"math.Ceil":        fpRound("RTP"),
		"math.Floor":       fpRound("RTN"),
		"math.Trunc":       fpRound("RTZ"),
		"math.Round":       fpRound("RNA"),
		"bytes.Equal":      bytesEqual,
	}
	externMods = map[string]func(e *Engine, call *ssa.CallCommon, ms *modSet){
		"sort.Slice":       sortSliceMods,
		"sort.SliceStable": sortSliceMods,
	}
}

func fpRound(mode string) externHandler {
	return func(e *Engine, st *State, instr ssa.Instruction, fn *ssa.Function, args []*Val, k func(st *State, res *Val)) bool {
		e.Assumed["A3 math."+fn.Name()+" = IEEE roundToIntegral "+mode] = true
		k(st, &Val{T: sx("fp.roundToIntegral", mode, args[0].T), Ty: types.Typ[types.Float64]})
		return true
	}
}

func bytesEqual(e *Engine, st *State, instr ssa.Instruction, fn *ssa.Function, args []*Val, k func(st *State, res *Val)) bool {
	a, b := args[0], args[1]
	sl := a.Ty.Underlying().(*types.Slice)
	c, s := e.elemComp(sl.Elem())
	h := e.heapGet(st, c, s)
	qi := quoteSym("q$i")
	same := fmt.Sprintf("(forall ((%s Int)) (=> (and (<= 0 %s) (< %s (sl_len %s))) (= (select (select %s (sl_reg %s)) (+ (sl_off %s) %s)) (select (select %s (sl_reg %s)) (+ (sl_off %s) %s)))))",
		qi, qi, qi, a.T, h, a.T, a.T, qi, h, b.T, b.T, qi)
	r := e.freshName("bytes.Equal")
	st.declare(r, "Bool")
	st.assume(eq(r, and(eq(sx("sl_len", a.T), sx("sl_len", b.T)), same)))
	e.Assumed["A3 bytes.Equal = same length and same bytes"] = true
	k(st, &Val{T: r, Ty: tBool})
	return true
}

func sortSliceMods(e *Engine, call *ssa.CallCommon, ms *modSet) {
	// the sorted slice's element component
	if mi, ok := call.Args[0].(*ssa.MakeInterface); ok {
		if sl, ok := mi.X.Type().Underlying().(*types.Slice); ok {
			c, s := e.elemComp(sl.Elem())
			e.addCompWhole(ms, c, s)
			return
		}
	}
	ms.all = true
	ms.why = append(ms.why, "sort.Slice of unknown slice")
}

// sortSlice: sort.Slice(x, less) — trusted schema (A3): afterwards the slice
// is a permutation of its former contents (bijection pi on [0,len)) and no
// pair is out of order w.r.t. less evaluated on the new contents.
func sortSlice(e *Engine, st *State, instr ssa.Instruction, fn *ssa.Function, args []*Val, k func(st *State, res *Val)) bool {
	x := args[0]
	if x.Dyn == nil {
		return false
	}
	sv := x.Dyn
	sl, ok := sv.Ty.Underlying().(*types.Slice)
	if !ok || args[1].Clo == nil {
		return false
	}
	less := args[1].Clo
	c, srt := e.elemComp(sl.Elem())
	es := e.sortOf(sl.Elem())
	h := e.heapGet(st, c, srt)
	reg, off, ln := sx("sl_reg", sv.T), sx("sl_off", sv.T), sx("sl_len", sv.T)
	// the new heap component is a fresh constant that differs from the old one
	// only in the sorted slice's region; the axioms below are phrased over the
	// very terms later reads produce (select (select H reg) idx), so that
	// e-matching needs no array reasoning
	_ = es
	newH := e.freshName(strings.Trim(c, "|"))
	st.declare(newH, srt)
	st.define(eq(newH, sx("store", h, reg, sx("select", newH, reg))))
	old := sx("select", h, reg)
	na := sx("select", newH, reg)
	pi := e.freshName("sort.pi")
	pinv := e.freshName("sort.pinv")
	e.addDecl(fmt.Sprintf("(declare-fun %s (Int) Int)", pi))
	e.addDecl(fmt.Sprintf("(declare-fun %s (Int) Int)", pinv))
	qi, qj := quoteSym("q$i"), quoteSym("q$j")
	inr := func(v string) string { return and(sx("<=", "0", v), sx("<", v, ln)) }
	// permutation
	perm := func(f, g, a, b string) string {
		// forall i in range: f(i) in range, g(f(i)) = i, a[at(off,i)] = b[at(off,f(i))]
		return fmt.Sprintf("(forall ((%s Int)) (! (=> %s (and %s (= (%s (%s %s)) %s) (= (select %s %s) (select %s %s)))) :pattern ((select %s %s)) :pattern ((%s %s))))",
			qi, inr(qi), inr(sx(f, qi)), g, f, qi, qi, a, e.at(off, qi), b, e.at(off, sx(f, qi)), a, e.at(off, qi), f, qi)
	}
	st.assume(perm(pi, pinv, na, old))
	st.assume(perm(pinv, pi, old, na))
	// outside the slice window nothing changes
	st.assume(fmt.Sprintf("(forall ((%s Int)) (! (=> (not (and (<= %s %s) (< %s (+ %s %s)))) (= (select %s %s) (select %s %s))) :pattern ((select %s %s))))",
		qi, off, qi, qi, off, ln, na, qi, old, qi, na, qi))
	st.heap[c] = newH
	st.ghost["$sort:"+c] = srt
	// sortedness: forall i<j in range: !less(j, i), with less evaluated on the new state
	e.quiet++
	base := st.snapshot()
	base.items = st.items
	base.taint = map[string]bool{}
	base.cloCells = st.cloCells
	at := base.items
	bi := &Val{T: qi, Ty: tInt}
	bj := &Val{T: qj, Ty: tInt}
	outs := e.collectInline(base, less.Fn, []*Val{bj, bi}, less.Bind)
	e.quiet--
	merged, res, ok := e.mergeOutcomes(at, outs)
	if !ok || len(res) != 1 {
		return false
	}
	// the merged items mention the bound variables: wrap them into the quantifier body
	var defs []string
	var decls []string
	for p := merged; p != nil && p != at; p = p.prev {
		if strings.HasPrefix(p.cmd, "(declare-const ") {
			decls = append(decls, p.cmd)
		} else {
			defs = append(defs, p.cmd)
		}
	}
	body := not(res[0].T)
	if len(decls) > 0 {
		// inline definitions: substitute defined names (definitions are of the form (assert (= name term)))
		body = inlineDefs(body, defs, decls)
		if body == "" {
			return false
		}
	}
	st.assume(fmt.Sprintf("(forall ((%s Int) (%s Int)) (=> (and (<= 0 %s) (< %s %s) (< %s %s)) %s))", qi, qj, qi, qi, qj, qj, ln, body))
	e.Assumed["A3 sort.Slice: result is a permutation, ordered by the given less"] = true
	k(st, nil)
	return true
}

// inlineDefs substitutes named intermediate constants back into a term so
// that it can be placed under a quantifier. Returns "" when a declared
// constant has no definition (i.e. is a genuine unknown).
func inlineDefs(body string, defs, decls []string) string {
	// defs are in reverse order (latest first)
	for _, d := range defs {
		if !strings.HasPrefix(d, "(assert (= ") {
			// a range assumption on a loaded value: drop (sound: weaker assumption)
			continue
		}
		inner := strings.TrimSuffix(strings.TrimPrefix(d, "(assert (= "), "))")
		sp := splitFirstTerm(inner)
		if sp[0] == "" {
			continue
		}
		body = replaceSym(body, sp[0], sp[1])
	}
	for _, d := range decls {
		f := strings.Fields(d)
		if len(f) > 1 && containsSym(body, f[1]) {
			return ""
		}
	}
	return body
}

func splitFirstTerm(s string) [2]string {
	s = strings.TrimSpace(s)
	if s == "" {
		return [2]string{}
	}
	if s[0] == '|' {
		j := strings.IndexByte(s[1:], '|')
		if j < 0 {
			return [2]string{}
		}
		return [2]string{s[:j+2], strings.TrimSpace(s[j+2:])}
	}
	if s[0] == '(' {
		return [2]string{}
	}
	j := strings.IndexAny(s, " ")
	if j < 0 {
		return [2]string{}
	}
	return [2]string{s[:j], strings.TrimSpace(s[j:])}
}

func containsSym(body, sym string) bool {
	return indexSym(body, sym, 0) >= 0
}

func indexSym(body, sym string, from int) int {
	for {
		i := strings.Index(body[from:], sym)
		if i < 0 {
			return -1
		}
		i += from
		before := i == 0 || strings.ContainsRune(" ()", rune(body[i-1]))
		after := i+len(sym) == len(body) || strings.ContainsRune(" ()", rune(body[i+len(sym)]))
		if before && after {
			return i
		}
		from = i + 1
	}
}

func replaceSym(body, sym, with string) string {
	var b strings.Builder
	from := 0
	for {
		i := indexSym(body, sym, from)
		if i < 0 {
			b.WriteString(body[from:])
			break
		}
		b.WriteString(body[from:i])
		b.WriteString(with)
		from = i + len(sym)
	}
	return b.String()
}
