package gowp

import (
	"fmt"
	"go/types"
	"sort"
	"strings"

	"golang.org/x/tools/go/ssa"
	"golang.org/x/tools/go/ssa/ssautil"
)

// WritersSpec: `//@ writers <Type>.<field> (Cxx) f g ...` -- every store to
// that (unexported) struct field in the whole program is inside one of the
// named functions. With it a contract on those functions is a data-structure
// invariant of the field: nothing else can change it.
type WritersSpec struct {
	Pkg   string
	Field string // Type.field
	Prop  string
	Funcs []string
}

func (e *Engine) fieldWriters(prop string) {
	for _, w := range e.Writers {
		if w.Prop != prop {
			continue
		}
		parts := strings.SplitN(w.Field, ".", 2)
		allowed := map[string]bool{}
		for _, f := range w.Funcs {
			allowed[f] = true
		}
		var other []string
		found := false
		for fn := range ssautil.AllFunctions(e.Prog) {
			if fn.Blocks == nil {
				continue
			}
			for _, b := range fn.Blocks {
				for _, in := range b.Instrs {
					st, ok := in.(*ssa.Store)
					if !ok {
						continue
					}
					fa, ok := st.Addr.(*ssa.FieldAddr)
					if !ok {
						continue
					}
					pt, ok := fa.X.Type().Underlying().(*types.Pointer)
					if !ok {
						continue
					}
					nt, ok := types.Unalias(pt.Elem()).(*types.Named)
					if !ok || nt.Obj().Pkg() == nil || nt.Obj().Pkg().Path() != w.Pkg || nt.Obj().Name() != parts[0] {
						continue
					}
					stt, ok := nt.Underlying().(*types.Struct)
					if !ok || stt.Field(fa.Field).Name() != parts[1] {
						continue
					}
					found = true
					top := fn
					for top.Parent() != nil {
						top = top.Parent()
					}
					if !allowed[top.Name()] {
						other = append(other, top.Name()+" "+e.posOf(st.Pos()))
					}
				}
			}
		}
		sort.Strings(other)
		st := e.newState()
		e.curFunc = "writers"
		e.curProp = prop
		goal := "true"
		if len(other) > 0 || !found {
			goal = "false"
		}
		desc := fmt.Sprintf("%s is assigned only in %s", w.Field, strings.Join(w.Funcs, ", "))
		if !found {
			desc += " (no store to the field found: the clause asserts nothing)"
		}
		if len(other) > 0 {
			desc += "; also written in: " + strings.Join(other, "; ")
		}
		e.emit(st, "frame", "writers#"+w.Field, goal, desc)
	}
}
