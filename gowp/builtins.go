package gowp

import (
	"fmt"
	"go/ast"
	"go/parser"
	"go/types"
	"math"
	"strings"

	"golang.org/x/tools/go/ssa"
)

func float64bits(f float64) uint64 { return math.Float64bits(f) }

func parserParseExpr(s string) (ast.Expr, error) { return parser.ParseExpr(s) }

// ---- maps --------------------------------------------------------------------

func (e *Engine) mapComps(mt *types.Map) (mv, mvs, mh, mhs string) {
	ks, vs := e.sortOf(mt.Key()), e.sortOf(mt.Elem())
	// per (K,V) including the kind of the Go types (int, interface, pointer,
	// map ... all have sort Int): maps of different types never alias
	tag := strings.Trim(ks, "|") + kindTag(mt.Key()) + "$" + strings.Trim(vs, "|") + kindTag(mt.Elem())
	mv = e.compName("MV", tag, "")
	mvs = fmt.Sprintf("(Array Int (Array %s %s))", ks, vs)
	mh = e.compName("MH", tag, "")
	mhs = fmt.Sprintf("(Array Int (Array %s Bool))", ks)
	return
}

func (e *Engine) mapLenComp() (string, string) { return "ML$", "(Array Int Int)" }

func (e *Engine) makeMap(st *State, x *ssa.MakeMap) {
	mt := x.Type().Underlying().(*types.Map)
	r := e.freshRef(st, "map")
	e.notePrivType(r, x.Type())
	_, _, mh, mhs := e.mapComps(mt)
	ml, mls := e.mapLenComp()
	h := e.heapGet(st, mh, mhs)
	e.heapSet(st, mh, mhs, sx("store", h, r, fmt.Sprintf("((as const (Array %s Bool)) false)", e.sortOf(mt.Key()))))
	l := e.heapGet(st, ml, mls)
	e.heapSet(st, ml, mls, sx("store", l, r, "0"))
	e.set(st, x, &Val{T: r, Ty: x.Type()})
}

func (e *Engine) mapUpdate(st *State, x *ssa.MapUpdate) {
	m := e.get(st, x.Map)
	mt := m.Ty.Underlying().(*types.Map)
	k := e.valTerm(e.get(st, x.Key))
	v := e.valTerm(e.get(st, x.Value))
	e.emit(st, "nil", e.site(x, "nilmap"), not(eq(m.T, "0")), "assignment to entry in non-nil map "+e.posOf(x.Pos()))
	e.escapeStore(st, &Addr{Kind: aHeap, Ref: m.T}, k+" "+v)
	e.mapStore(st, mt, m.T, k, v)
}

func (e *Engine) mapStore(st *State, mt *types.Map, m, k, v string) {
	mv, mvs, mh, mhs := e.mapComps(mt)
	ml, mls := e.mapLenComp()
	hv := e.heapGet(st, mv, mvs)
	hh := e.heapGet(st, mh, mhs)
	hl := e.heapGet(st, ml, mls)
	had := sx("select", sx("select", hh, m), k)
	e.heapSet(st, ml, mls, sx("store", hl, m, sx("+", sx("select", hl, m), ite(had, "0", "1"))))
	e.heapSet(st, mv, mvs, sx("store", hv, m, sx("store", sx("select", hv, m), k, v)))
	e.heapSet(st, mh, mhs, sx("store", hh, m, sx("store", sx("select", hh, m), k, "true")))
}

func (e *Engine) mapDelete(st *State, mt *types.Map, m, k string) {
	_, _, mh, mhs := e.mapComps(mt)
	ml, mls := e.mapLenComp()
	hh := e.heapGet(st, mh, mhs)
	hl := e.heapGet(st, ml, mls)
	had := and(not(eq(m, "0")), sx("select", sx("select", hh, m), k))
	e.heapSet(st, ml, mls, sx("store", hl, m, sx("-", sx("select", hl, m), ite(had, "1", "0"))))
	e.heapSet(st, mh, mhs, sx("store", hh, m, sx("store", sx("select", hh, m), k, "false")))
}

func (e *Engine) lookup(st *State, x *ssa.Lookup) {
	m := e.get(st, x.X)
	if isString(m.Ty) {
		idx := e.get(st, x.Index).T
		e.emit(st, "bounds", e.site(x, "bounds"), and(sx("<=", "0", idx), sx("<", idx, sx("str.len", m.T))), "string index in range "+e.posOf(x.Pos()))
		e.setTerm(st, x, sx("str.to_code", sx("str.at", m.T, idx)))
		return
	}
	mt := m.Ty.Underlying().(*types.Map)
	k := e.valTerm(e.get(st, x.Index))
	mv, mvs, mh, mhs := e.mapComps(mt)
	has := and(not(eq(m.T, "0")), sx("select", sx("select", e.heapGet(st, mh, mhs), m.T), k))
	hasn := e.named(st, "has", has, "Bool")
	val := ite(hasn, sx("select", sx("select", e.heapGet(st, mv, mvs), m.T), k), e.zeroOf(mt.Elem()))
	valn := e.named(st, "mapval", val, e.sortOf(mt.Elem()))
	st.assume(e.rangeSt(st, valn, mt.Elem()))
	if x.CommaOk {
		e.set(st, x, &Val{Tup: []*Val{{T: valn, Ty: mt.Elem()}, {T: hasn, Ty: tBool}}, Ty: x.Type()})
		return
	}
	e.set(st, x, &Val{T: valn, Ty: mt.Elem()})
}

// ---- map / string iteration ----------------------------------------------------

type mapIter struct {
	m       *Val
	visited string // ghost component name holding (Array K Bool)
	count   string // ghost component name holding Int
	isStr   bool
}

func (e *Engine) rangeInit(st *State, x *ssa.Range) {
	m := e.get(st, x.X)
	if isString(m.Ty) {
		panic(unsupported{"range over string " + e.posOf(x.Pos())})
	}
	mt := m.Ty.Underlying().(*types.Map)
	id := e.freshName("iter")
	it := &mapIter{m: m, visited: "IT$visited$" + strings.Trim(id, "|"), count: "IT$count$" + strings.Trim(id, "|")}
	ks := e.sortOf(mt.Key())
	e.heapSet(st, it.visited, fmt.Sprintf("(Array %s Bool)", ks), fmt.Sprintf("((as const (Array %s Bool)) false)", ks))
	e.heapSet(st, it.count, "Int", "0")
	st.ghost["iter:"+x.Name()] = it.visited
	e.set(st, x, &Val{Iter: it, Ty: x.Type()})
}

// doNext: one step of a map iteration.  The iteration order is arbitrary:
// ok  <=> some key is present and not yet visited; the key returned is such a
// key.  (Assumes the map is not modified during the iteration.)
func (e *Engine) doNext(st *State, x *ssa.Next, k func(st *State)) {
	iv := e.get(st, x.Iter)
	if iv.Iter == nil {
		panic(unsupported{"next on unknown iterator"})
	}
	it := iv.Iter
	mt := it.m.Ty.Underlying().(*types.Map)
	ks := e.sortOf(mt.Key())
	mv, mvs, mh, mhs := e.mapComps(mt)
	ml, mls := e.mapLenComp()
	vis := e.heapGet(st, it.visited, fmt.Sprintf("(Array %s Bool)", ks))
	cnt := e.heapGet(st, it.count, "Int")
	hasArr := sx("select", e.heapGet(st, mh, mhs), it.m.T)
	ln := sx("select", e.heapGet(st, ml, mls), it.m.T)
	ok := e.freshName("next.ok")
	st.declare(ok, "Bool")
	key := e.freshVal(st, "next.key", mt.Key())
	// ok => key present and unvisited ; !ok => every present key visited and count == len
	qk := quoteSym("q$k")
	st.assume(implies(ok, and(not(eq(it.m.T, "0")), sx("select", hasArr, key.T), not(sx("select", vis, key.T)), sx("<", cnt, ln))))
	st.assume(implies(not(ok), and(
		or(eq(it.m.T, "0"), eq(cnt, ln)),
		fmt.Sprintf("(forall ((%s %s)) (=> (select %s %s) (select %s %s)))", qk, ks, hasArr, qk, vis, qk))))
	e.heapSet(st, it.visited, fmt.Sprintf("(Array %s Bool)", ks), ite(ok, sx("store", vis, key.T, "true"), vis))
	e.heapSet(st, it.count, "Int", ite(ok, sx("+", cnt, "1"), cnt))
	val := e.named(st, "next.val", sx("select", sx("select", e.heapGet(st, mv, mvs), it.m.T), key.T), e.sortOf(mt.Elem()))
	st.assume(e.rangeSt(st, val, mt.Elem()))
	e.set(st, x, &Val{Tup: []*Val{{T: ok, Ty: tBool}, key, {T: val, Ty: mt.Elem()}}, Ty: x.Type()})
	k(st)
}

// ---- builtins ------------------------------------------------------------------

func (e *Engine) builtin(st *State, instr ssa.Instruction, b *ssa.Builtin, call *ssa.CallCommon, args []*Val) *Val {
	switch b.Name() {
	case "len":
		return &Val{T: e.lenWithRange(st, args[0]), Ty: tInt}
	case "cap":
		return &Val{T: sx("sl_cap", args[0].T), Ty: tInt}
	case "append":
		return e.doAppend(st, instr, args[0], args[1])
	case "copy":
		return e.doCopy(st, instr, args[0], args[1])
	case "delete":
		mt := args[0].Ty.Underlying().(*types.Map)
		e.mapDelete(st, mt, args[0].T, e.valTerm(args[1]))
		return nil
	case "clear":
		switch t := args[0].Ty.Underlying().(type) {
		case *types.Map:
			_, _, mh, mhs := e.mapComps(t)
			ml, mls := e.mapLenComp()
			hh := e.heapGet(st, mh, mhs)
			hl := e.heapGet(st, ml, mls)
			m := args[0].T
			e.heapSet(st, mh, mhs, ite(eq(m, "0"), hh, sx("store", hh, m, fmt.Sprintf("((as const (Array %s Bool)) false)", e.sortOf(t.Key())))))
			e.heapSet(st, ml, mls, ite(eq(m, "0"), hl, sx("store", hl, m, "0")))
			return nil
		}
		panic(unsupported{"clear of non-map"})
	case "min", "max":
		t := args[0].Ty
		r := args[0].T
		for _, a := range args[1:] {
			op := token_LSS
			if b.Name() == "max" {
				op = token_GTR
			}
			r = ite(e.compare(op, a.T, r, t), a.T, r)
		}
		return &Val{T: r, Ty: t}
	case "print", "println":
		return nil
	case "ssa:wrapnilchk":
		return args[0]
	case "panic":
		e.emit(st, "unreachable-panic", e.site(instr, "panic"), "false", "explicit panic is unreachable "+e.posOf(instr.Pos()))
		panic(pathEnd{"panic"})
	case "recover":
		return &Val{T: "0", Ty: call.Signature().Results().At(0).Type()}
	}
	panic(unsupported{"builtin " + b.Name()})
}

func (e *Engine) lenWithRange(st *State, v *Val) string {
	l := e.lenOf(st, v)
	if _, ok := v.Ty.Underlying().(*types.Map); ok {
		n := e.named(st, "maplen", l, "Int")
		st.assume(sx("<=", "0", n))
		return n
	}
	if isString(v.Ty) {
		return l
	}
	return l
}

// doAppend: append(s, t...) where t is a slice.  In place when the capacity
// suffices, otherwise a fresh region.
func (e *Engine) doAppend(st *State, instr ssa.Instruction, s, t *Val) *Val {
	sl := s.Ty.Underlying().(*types.Slice)
	et := sl.Elem()
	c, srt := e.elemComp(et)
	es := e.sortOf(et)
	h := e.heapGet(st, c, srt)
	var tlen, treg, toff string
	if isString(t.Ty) {
		// append([]byte, string...)
		tlen = sx("str.len", t.T)
		f := quoteSym("str2arr$" + es)
		e.declOnce("fun:"+f, fmt.Sprintf("(declare-fun %s (String) (Array Int %s))", f, es))
		treg, toff = "", "0"
		_ = f
		panic(unsupported{"append string to bytes"})
	}
	tlen, treg, toff = sx("sl_len", t.T), sx("sl_reg", t.T), sx("sl_off", t.T)
	slen, sreg, soff, scap := sx("sl_len", s.T), sx("sl_reg", s.T), sx("sl_off", s.T), sx("sl_cap", s.T)
	nlen := e.named(st, "append.len", sx("+", slen, tlen), "Int")
	fits := e.named(st, "append.fits", sx("<=", nlen, scap), "Bool")
	// fresh region for the reallocating case
	al := e.allocGet(st)
	nr := e.freshName("append.reg")
	st.declare(nr, "Int")
	st.assume(and(sx(">", nr, "0"), not(sx("select", al, nr))))
	e.markPrivate(st, nr)
	e.notePrivType(nr, s.Ty)
	// appended element values are stored into s's region: if that region is
	// not private, private references among them escape; which private
	// references an element can be is decided by its type
	if len(st.priv) > 0 && !e.isPrivateRef(st, sreg) {
		for r := range st.priv {
			if rt, ok := e.privTypes[r]; !ok || canHold(et, rt, 0) {
				if traceInline {
					fmt.Printf("PRIVACY DROPPED: append of %v elements into a non-private slice\n", et)
				}
				st.priv = nil
				break
			}
		}
	}
	e.heapSet(st, "$alloc", "(Array Int Bool)", ite(fits, al, sx("store", al, nr, "true")))
	ncap := e.freshName("append.cap")
	st.declare(ncap, "Int")
	st.assume(and(sx(">=", ncap, nlen), sx("<", ncap, pow2[63])))
	rreg := ite(and(fits, not(eq(sreg, "0"))), sreg, nr)
	roff := ite(and(fits, not(eq(sreg, "0"))), soff, "0")
	rcap := ite(and(fits, not(eq(sreg, "0"))), scap, ncap)
	// append(nil, empty...) stays nil
	stay := and(eq(tlen, "0"))
	res := e.named(st, "append.res", ite(stay, s.T, sx("mk_Slice", rreg, roff, nlen, rcap)), "Slice")
	// element arrays
	old := sx("select", h, sreg)
	src := sx("select", h, treg)
	na := e.freshName("append.arr")
	st.declare(na, "(Array Int "+es+")")
	qi := quoteSym("q$i")
	inplace := and(fits, not(eq(sreg, "0")))
	// in place: new array equals old except [soff+slen, soff+nlen) := t
	// realloc : new array [0,slen) := s elements, [slen, nlen) := t elements
	if isConstOne(tlen) {
		_ = qi
	}
	st.assume(fmt.Sprintf("(forall ((%s Int)) (! (= (select %s %s) %s) :pattern ((select %s %s))))", qi, na, qi,
		ite(inplace,
			ite(and(sx("<=", sx("+", soff, slen), qi), sx("<", qi, sx("+", soff, nlen))),
				sx("select", src, sx("+", toff, sx("-", qi, sx("+", soff, slen)))),
				sx("select", old, qi)),
			ite(and(sx("<=", "0", qi), sx("<", qi, slen)),
				sx("select", old, sx("+", soff, qi)),
				ite(and(sx("<=", slen, qi), sx("<", qi, nlen)),
					sx("select", src, sx("+", toff, sx("-", qi, slen))),
					e.zeroOf(et)))),
		na, qi))
	e.heapSet(st, c, srt, ite(stay, h, sx("store", h, sx("sl_reg", res), na)))
	return &Val{T: res, Ty: s.Ty}
}

func isConstOne(s string) bool { return s == "1" }

func (e *Engine) doCopy(st *State, instr ssa.Instruction, dst, src *Val) *Val {
	sl := dst.Ty.Underlying().(*types.Slice)
	et := sl.Elem()
	c, srt := e.elemComp(et)
	es := e.sortOf(et)
	h := e.heapGet(st, c, srt)
	dlen, dreg, doff := sx("sl_len", dst.T), sx("sl_reg", dst.T), sx("sl_off", dst.T)
	if isString(src.Ty) {
		panic(unsupported{"copy from string"})
	}
	slen, sreg, soff := sx("sl_len", src.T), sx("sl_reg", src.T), sx("sl_off", src.T)
	n := e.named(st, "copy.n", ite(sx("<", dlen, slen), dlen, slen), "Int")
	old := sx("select", h, dreg)
	sarr := sx("select", h, sreg)
	na := e.freshName("copy.arr")
	st.declare(na, "(Array Int "+es+")")
	qi := quoteSym("q$i")
	st.assume(fmt.Sprintf("(forall ((%s Int)) (! (= (select %s %s) %s) :pattern ((select %s %s))))", qi, na, qi,
		ite(and(sx("<=", doff, qi), sx("<", qi, sx("+", doff, n))),
			sx("select", sarr, sx("+", soff, sx("-", qi, doff))),
			sx("select", old, qi)),
		na, qi))
	e.heapSet(st, c, srt, ite(eq(n, "0"), h, sx("store", h, dreg, na)))
	return &Val{T: n, Ty: tInt}
}

// ---- specification: address of an expression (for modifies clauses) --------------

func (env *Env) addrOfExpr(x ast.Expr) *Addr {
	e := env.e
	switch n := x.(type) {
	case *ast.ParenExpr:
		return env.addrOfExpr(n.X)
	case *ast.StarExpr:
		v := env.eval(n.X)
		return e.addrOf(v)
	case *ast.SelectorExpr:
		b := env.eval(n.X)
		obj, path, _ := types.LookupFieldOrMethod(b.Ty, true, env.pkg, n.Sel.Name)
		if obj == nil {
			for _, p := range e.Pkgs {
				obj, path, _ = types.LookupFieldOrMethod(b.Ty, true, p.Types, n.Sel.Name)
				if obj != nil {
					break
				}
			}
		}
		if obj == nil {
			specErr("no field %s", n.Sel.Name)
		}
		pt, ok := b.Ty.Underlying().(*types.Pointer)
		if !ok {
			specErr("modifies through non-pointer %v", b.Ty)
		}
		a := &Addr{Kind: aHeap, Ref: b.T, Base: pt.Elem()}
		cur := pt.Elem()
		for i, idx := range path {
			st := cur.Underlying().(*types.Struct)
			ft := st.Field(idx).Type()
			a.Path = append(a.Path, pathEl{Field: idx})
			if fpt, ok := ft.Underlying().(*types.Pointer); ok && i < len(path)-1 {
				// embedded pointer: follow
				ref := e.load(env.st, a)
				a = &Addr{Kind: aHeap, Ref: ref, Base: fpt.Elem()}
				cur = fpt.Elem()
				continue
			}
			cur = ft
		}
		return a
	case *ast.IndexExpr:
		b := env.eval(n.X)
		i := env.eval(n.Index)
		if sl, ok := b.Ty.Underlying().(*types.Slice); ok {
			return &Addr{Kind: aElem, Ref: sx("sl_reg", b.T), Idx: e.at(sx("sl_off", b.T), i.T), Base: sl.Elem()}
		}
	case *ast.Ident:
		v := env.ident(n.Name)
		if v.Addr != nil {
			return v.Addr
		}
	}
	return nil
}
