package gowp

import (
	"fmt"
	"go/types"
	"strings"

	"golang.org/x/tools/go/ssa"
)

// `opt deterministic` on a contract: obligation that the function's result
// can depend only on its arguments (and on pure interface methods of them,
// A9): its body, and every statically called body, reads no package-level
// variable (other than declared constants-by-contract), no clock, no random
// source, iterates over no map, starts no goroutine, receives from no channel
// and calls no unknown function value.
func (e *Engine) checkDeterministic(fn *ssa.Function) []string {
	var bad []string
	seen := map[*ssa.Function]bool{}
	var visit func(f *ssa.Function, depth int)
	visit = func(f *ssa.Function, depth int) {
		if f == nil || seen[f] || f.Blocks == nil {
			return
		}
		seen[f] = true
		if depth > 6 {
			bad = append(bad, "call depth exceeded at "+f.String())
			return
		}
		for _, b := range f.Blocks {
			for _, in := range b.Instrs {
				switch x := in.(type) {
				case *ssa.UnOp:
					if g, ok := x.X.(*ssa.Global); ok {
						if !e.isConstGlobal(g) {
							bad = append(bad, "reads package variable "+g.Name()+" "+e.posOf(x.Pos()))
						}
					}
					if x.Op.String() == "<-" {
						bad = append(bad, "channel receive "+e.posOf(x.Pos()))
					}
				case *ssa.Range:
					if _, ok := x.X.Type().Underlying().(*types.Map); ok {
						bad = append(bad, "iterates over a map "+e.posOf(x.Pos()))
					}
				case *ssa.Go:
					bad = append(bad, "starts a goroutine "+e.posOf(x.Pos()))
				case *ssa.Select:
					bad = append(bad, "select "+e.posOf(x.Pos()))
				case ssa.CallInstruction:
					c := x.Common()
					if c.IsInvoke() {
						continue // interface methods of the arguments: pure by A9
					}
					if _, ok := c.Value.(*ssa.Builtin); ok {
						continue
					}
					callee := c.StaticCallee()
					if callee == nil {
						if !funcValueOK(c.Value, 0) {
							bad = append(bad, "calls an unknown function value "+e.posOf(in.Pos()))
						}
						continue
					}
					name := callee.String()
					switch {
					case strings.HasPrefix(name, "time.Now"), strings.HasPrefix(name, "time.Since"),
						strings.HasPrefix(name, "math/rand"), strings.HasPrefix(name, "crypto/rand"),
						strings.HasPrefix(name, "os."), strings.HasPrefix(name, "runtime."):
						bad = append(bad, "calls "+name+" "+e.posOf(in.Pos()))
					case isErrCtor(name), isEffectFreePkg(pkgPathOf(callee)):
					case callee.Blocks == nil:
						if !pureExterns[name] && externs[name] == nil {
							bad = append(bad, "calls "+name+" (no body) "+e.posOf(in.Pos()))
						} else if strings.HasPrefix(name, "time.") || strings.HasPrefix(name, "context.") {
							bad = append(bad, "calls "+name+" "+e.posOf(in.Pos()))
						}
					default:
						visit(callee, depth+1)
					}
				}
			}
		}
		for _, an := range f.AnonFuncs {
			visit(an, depth+1)
		}
	}
	visit(fn, 0)
	return bad
}

func pkgPathOf(f *ssa.Function) string {
	if f.Pkg != nil {
		return f.Pkg.Pkg.Path()
	}
	if o := f.Origin(); o != nil && o.Pkg != nil {
		return o.Pkg.Pkg.Path()
	}
	return ""
}

func (e *Engine) isConstGlobal(g *ssa.Global) bool {
	for _, gs := range e.Globals {
		if g.Pkg != nil && gs.Pkg == g.Pkg.Pkg.Path() && gs.Name == g.Name() {
			return true
		}
	}
	return false
}

func (e *Engine) emitDeterministic(st *State, fn *ssa.Function) {
	bad := e.checkDeterministic(fn)
	goal := "true"
	if len(bad) > 0 {
		goal = "false"
	}
	e.emit(st, "frame", "deterministic", goal, fmt.Sprintf("the result depends only on the arguments %s", strings.Join(bad, "; ")))
}
