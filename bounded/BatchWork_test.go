// verif-replay pkg=./util property=C33 obligation=bounded/BatchWork verif-replay-tags=verif
//
// Bounded stand-in for the schema of util.BatchWork that the proofs of its
// callers rely on (A7; BatchWork runs its jobs on worker goroutines, which the
// verifier does not model). The real function is run for every size 1..10 and
// limit 1..5, with no failure and with a failure injected at every pref call
// and at every job, and its call trace is compared with the schema:
//   - batches [b, min(b+limit,size)-1] for b = 0, limit, 2*limit, ... in order;
//   - pref(last) once per batch, before any job of the batch and after every
//     job of the previous batch has finished; last = the batch's last index;
//   - every job index of a batch exactly once, with that last;
//   - the first error (pref or job) is returned, no later batch is started;
//     without an error every index 0..size-1 is visited and nil is returned.

package util

import (
	"context"
	"fmt"
	"sync"
	"testing"

	"github.com/pkg/errors"
)

type verifBWEvent struct {
	pref    bool
	i, last uint64
}

// verifWrapCanceled: the injected failure wraps context.Canceled (a job that
// fails because one of its own sub-operations was cancelled)
var verifWrapCanceled bool

func verifRunBatchWork(size, limit int64, failPref, failJob int64) (trace []verifBWEvent, err error, injected error) {
	var mu sync.Mutex
	injected = errors.Errorf("injected")
	if verifWrapCanceled {
		injected = errors.Wrap(context.Canceled, "injected")
	}
	err = BatchWork(context.Background(), size, limit,
		func(_ context.Context, last uint64) error {
			mu.Lock()
			trace = append(trace, verifBWEvent{pref: true, last: last})
			n := int64(0)
			for _, e := range trace {
				if e.pref {
					n++
				}
			}
			mu.Unlock()
			if failPref >= 0 && n-1 == failPref {
				return injected
			}
			return nil
		},
		func(_ context.Context, i, last uint64) error {
			mu.Lock()
			trace = append(trace, verifBWEvent{i: i, last: last})
			mu.Unlock()
			if failJob >= 0 && int64(i) == failJob {
				return injected
			}
			return nil
		},
	)
	// jobs of a failed batch may still be running: take the trace under the lock
	mu.Lock()
	snapshot := append([]verifBWEvent(nil), trace...)
	mu.Unlock()
	return snapshot, err, injected
}

func verifCheckBatchWork(size, limit, failPref, failJob int64) string {
	trace, err, injected := verifRunBatchWork(size, limit, failPref, failJob)
	// replay the trace against the schema
	var b int64 // start of the current batch
	pos := 0
	sawFailure := false
	for b < size && !sawFailure {
		end := b + limit
		if end > size {
			end = size
		}
		last := uint64(end - 1)
		if pos >= len(trace) || !trace[pos].pref || trace[pos].last != last {
			return fmt.Sprintf("batch starting at %d: expected pref(last=%d) at trace position %d, trace=%v", b, last, pos, trace)
		}
		prefIndex := int64(0)
		for _, e := range trace[:pos] {
			if e.pref {
				prefIndex++
			}
		}
		pos++
		if failPref >= 0 && prefIndex == failPref {
			sawFailure = true
			break
		}
		seen := map[uint64]bool{}
		for pos < len(trace) && !trace[pos].pref {
			e := trace[pos]
			if int64(e.i) < b || int64(e.i) >= end || e.last != last || seen[e.i] {
				return fmt.Sprintf("batch [%d,%d]: unexpected job call i=%d last=%d (dup=%v), trace=%v", b, end-1, e.i, e.last, seen[e.i], trace)
			}
			seen[e.i] = true
			pos++
		}
		failedHere := failJob >= b && failJob < end
		if failedHere {
			if !seen[uint64(failJob)] {
				return fmt.Sprintf("batch [%d,%d]: the failing job %d was never run, trace=%v", b, end-1, failJob, trace)
			}
			sawFailure = true
			break
		}
		if int64(len(seen)) != end-b {
			return fmt.Sprintf("batch [%d,%d]: %d of %d jobs run, trace=%v", b, end-1, len(seen), end-b, trace)
		}
		b = end
	}
	if pos != len(trace) {
		return fmt.Sprintf("calls after the end of the schema (position %d), trace=%v", pos, trace)
	}
	if sawFailure {
		if err == nil {
			return fmt.Sprintf("a failure was injected (pref %d / job %d) but BatchWork returned nil", failPref, failJob)
		}
		if !errors.Is(err, injected) {
			return fmt.Sprintf("BatchWork returned a different error: %v", err)
		}
		return ""
	}
	if err != nil {
		return fmt.Sprintf("no failure injected but BatchWork returned %v", err)
	}
	return ""
}

func TestVerifReplay(t *testing.T) {
	cases, failed := 0, 0
	for _, wrap := range []bool{false, true} {
		verifWrapCanceled = wrap
		for size := int64(1); size <= 10; size++ {
			for limit := int64(1); limit <= 5; limit++ {
				nb := (size + limit - 1) / limit
				var runs [][2]int64
				runs = append(runs, [2]int64{-1, -1})
				for p := int64(0); p < nb; p++ {
					runs = append(runs, [2]int64{p, -1})
				}
				for j := int64(0); j < size; j++ {
					runs = append(runs, [2]int64{-1, j})
				}
				for _, r := range runs {
					cases++
					var msg string
					func() {
						defer func() {
							if x := recover(); x != nil {
								msg = fmt.Sprintf("panic: %v", x)
							}
						}()
						msg = verifCheckBatchWork(size, limit, r[0], r[1])
					}()
					if msg != "" {
						failed++
						if failed <= 5 {
							fmt.Printf("VERIF-BOUNDED-FAIL size=%d limit=%d failPref=%d failJob=%d wrapCanceled=%v: %s\n", size, limit, r[0], r[1], wrap, msg)
						}
					}
				}
			}
		}
	}
	fmt.Printf("VERIF-BOUNDED cases=%d failed=%d bound=sizes 1..10, limits 1..5, no failure or one injected failure (a plain error, and an error wrapping context.Canceled) at every pref call and every job\n", cases, failed)
}
