// verif-replay pkg=./util property=C29 obligation=bounded/EnsureRead verif-replay-tags=verif
//
// Bounded stand-in for the trusted contract of util.EnsureRead (it hands the
// chunks over a channel from goroutines, which the verifier does not model):
// the real function is run on every stream of 0..9 bytes, every buffer size
// 0..6 and every chunking of the stream (a Read never returns more than asked
// for; EOF arrives with the last chunk or on its own), and compared with the
// contract used by the proofs of its callers:
//   err == nil or Is(io.EOF)  ==>  n == len(b), b == the next len(b) stream
//                                  bytes, exactly len(b) bytes consumed
//   otherwise                 ==>  n <= len(b), at most len(b) bytes consumed
// and it never panics.

package util

import (
	"context"
	"fmt"
	"io"
	"testing"

	"github.com/pkg/errors"
)

type verifChunkReader struct {
	data     []byte
	chunks   []int
	pos      int
	ci       int
	eofWith  bool
	consumed int
}

func (r *verifChunkReader) Read(p []byte) (int, error) {
	if r.pos >= len(r.data) {
		return 0, io.EOF
	}
	n := len(r.data) - r.pos
	if r.ci < len(r.chunks) && r.chunks[r.ci] < n {
		n = r.chunks[r.ci]
	}
	r.ci++
	if n > len(p) {
		n = len(p)
	}
	copy(p, r.data[r.pos:r.pos+n])
	r.pos += n
	r.consumed += n
	if r.pos >= len(r.data) && r.eofWith {
		return n, io.EOF
	}
	return n, nil
}

func TestVerifReplay(t *testing.T) {
	cases, failed := 0, 0
	fail := func(format string, args ...interface{}) {
		failed++
		if failed <= 5 {
			fmt.Printf("VERIF-BOUNDED-FAIL %s\n", fmt.Sprintf(format, args...))
		}
	}
	for l := 0; l <= 9; l++ {
		data := make([]byte, l)
		for i := range data {
			data[i] = byte(i*37 + 11)
		}
		// chunkings: bit k of mask set = a chunk boundary after byte k
		nmask := 1
		if l > 1 {
			nmask = 1 << uint(l-1)
		}
		for mask := 0; mask < nmask; mask++ {
			var chunks []int
			c := 0
			for k := 0; k < l; k++ {
				c++
				if k == l-1 || mask&(1<<uint(k)) != 0 {
					chunks = append(chunks, c)
					c = 0
				}
			}
			for bs := 0; bs <= 6; bs++ {
				for _, eofWith := range []bool{false, true} {
					cases++
					func() {
						r := &verifChunkReader{data: data, chunks: chunks, eofWith: eofWith}
						b := make([]byte, bs)
						defer func() {
							if x := recover(); x != nil {
								fail("panic stream=%d chunks=%v buf=%d eofWith=%v: %v", l, chunks, bs, eofWith, x)
							}
						}()
						n, err := EnsureRead(context.Background(), r, b)
						if err == nil || errors.Is(err, io.EOF) {
							if n != uint64(bs) || r.consumed != bs {
								fail("success with n=%d consumed=%d want %d: stream=%d chunks=%v eofWith=%v", n, r.consumed, bs, l, chunks, eofWith)
								return
							}
							for i := 0; i < bs; i++ {
								if b[i] != data[i] {
									fail("byte %d differs: stream=%d chunks=%v buf=%d", i, l, chunks, bs)
									return
								}
							}
							return
						}
						if n > uint64(bs) || r.consumed > bs {
							fail("error with n=%d consumed=%d > buf=%d: stream=%d chunks=%v", n, r.consumed, bs, l, chunks)
						}
						if bs <= l {
							fail("error although the stream holds enough bytes: %v stream=%d chunks=%v buf=%d eofWith=%v", err, l, chunks, bs, eofWith)
						}
					}()
				}
			}
		}
	}
	fmt.Printf("VERIF-BOUNDED cases=%d failed=%d bound=streams of 0..9 bytes, buffers of 0..6 bytes, every chunking, EOF with or after the last chunk\n", cases, failed)
}
