#!/bin/sh
# builds the verifier (offline)
cd /verif/gowp && GOFLAGS=-mod=mod GOPROXY=off GOSUMDB=off GOTOOLCHAIN=local go build -o ../bin/vcheck ./cmd/vcheck
