#!/usr/bin/env python3
# usage: tools/mkpatch2.py <repo-relative-file> <out.patch> <old> <new> [<old> <new> ...]
# exact string replacements (each must occur exactly once) -> unified diff
import sys, difflib
f, out = sys.argv[1], sys.argv[2]
s = open('/repo/' + f).read()
t = s
a = sys.argv[3:]
for i in range(0, len(a), 2):
    if t.count(a[i]) != 1:
        sys.exit("NOT-UNIQUE(%d) %r" % (t.count(a[i]), a[i][:50]))
    t = t.replace(a[i], a[i + 1])
d = difflib.unified_diff(s.splitlines(True), t.splitlines(True), 'a/' + f, 'b/' + f)
open(out, 'w').write(''.join(d))
