#!/bin/sh
# usage: tools/seeded_recheck.sh [<id>-<k> ...]
# Re-runs the checks recorded in seeded/<id>-<k>/result.json against a scratch
# copy of /repo's working tree with the seeded patch applied (the demonstration
# was confirmed when the change was taken in; this only refreshes the "caught
# by" part with the current engine and contracts). Scratch copies under /tmp are
# removed; /repo is not touched.
cd /verif
names="$@"; [ -z "$names" ] && names=$(ls seeded)
vd=$(mktemp -d /tmp/vself.XXXXXX)
cp -r props.json known_findings.json ledger bounded "$vd"/
for n in $names; do echo "$n $vd"; done | xargs -P 5 -L 1 sh -c '
n=$0; vd=$1; dst=/verif/seeded/$n
[ -f "$dst/result.json" ] || exit 0
d=$(mktemp -d /tmp/vmut.XXXXXX)
(cd /repo && git ls-files -co --exclude-standard | rsync -a --files-from=- . "$d/")
if ! (cd "$d" && patch -p1 -s < "$dst/patch.diff"); then echo "PATCH-FAILED $n"; rm -rf "$d"; exit 0; fi
checks=$(python3 -c "import json;print(\" \".join(c[\"check\"] for c in json.load(open(\"$dst/result.json\"))[\"checks\"]))")
det=""
for c in $checks; do
  o=$(mktemp -d /tmp/vout.XXXXXX); cp -r "$vd"/* "$o"/
  out=$(/verif/bin/vcheck check $c --repo "$d" --verif "$o" --no-replay 2>&1); rc=$?
  nv=$(echo "$out" | grep -c "^VIOLATION")
  first=$(echo "$out" | grep "^  failed obligation" | head -3 | sed "s/^  failed obligation //" | tr "\n" ";" | sed "s/\\\\/\\\\\\\\/g; s/\"/\\\\\"/g")
  det="$det{\"check\":\"$c\",\"rc\":$rc,\"violations\":$nv,\"first\":\"$first\"},"
  rm -rf "$o"
done
python3 - "$dst/result.json" "[${det%,}]" <<PY
import json,sys
r=json.load(open(sys.argv[1])); r["checks"]=json.loads(sys.argv[2]); json.dump(r,open(sys.argv[1],"w"),separators=(",",":"))
print(r["id"],r["k"],[(c["check"],c["rc"]) for c in r["checks"]])
PY
rm -rf "$d"
'
rm -rf "$vd"
