#!/bin/sh
# usage: tools/selftest.sh [Cxx ...]
# Must-fail corpus: every patch under selftest/<id>/ (deliberate property-breaking
# changes and the reverse patches of fixed defects) must make the check of <id>
# report a VIOLATION; the unchanged tree must pass. Uses scratch copies under /tmp
# (removed afterwards) and a scratch output directory, so evidence/ is untouched.
cd /verif
ids="$@"
[ -z "$ids" ] && ids=$(ls selftest)
vd=$(mktemp -d /tmp/vself.XXXXXX)
cp -r props.json known_findings.json ledger bounded "$vd"/ 2>/dev/null
[ -d specs ] && cp -r specs "$vd"/
list=$(for id in $ids; do echo "$id - $vd"; for p in selftest/$id/*.patch; do [ -f "$p" ] && echo "$id $p $vd"; done; done)
echo "$list" | xargs -P 6 -L 1 sh -c '
id=$0; p=$1; vd=$2
d=$(mktemp -d /tmp/vmut.XXXXXX)
(cd /repo && git ls-files -co --exclude-standard | rsync -a --files-from=- . "$d/")
if [ "$p" != "-" ]; then
  if ! (cd "$d" && patch -p1 -s < "/verif/$p"); then echo "PATCH-FAILED $p"; rm -rf "$d"; exit 0; fi
fi
o=$(mktemp -d /tmp/vout.XXXXXX); cp -r "$vd"/* "$o"/
out=$(/verif/bin/vcheck check "$id" --repo "$d" --verif "$o" --no-replay 2>&1); rc=$?
n=$(echo "$out" | grep -c "^VIOLATION")
if [ "$p" = "-" ]; then
  if [ $rc -eq 0 ] && [ $n -eq 0 ]; then echo "ok    $id unchanged tree passes"; else echo "BAD   $id unchanged tree rc=$rc violations=$n"; fi
else
  if [ $rc -eq 1 ] && [ $n -gt 0 ]; then echo "ok    $p detected ($n)"; else echo "MISS  $p rc=$rc violations=$n"; fi
fi
rm -rf "$d" "$o"
'
rm -rf "$vd"
