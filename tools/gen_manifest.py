#!/usr/bin/env python3
"""Regenerates MANIFEST.json from tools/claims.json (one entry per property)."""
import json, os, sys
here = os.path.dirname(os.path.abspath(__file__))
root = os.path.dirname(here)
claims = json.load(open(os.path.join(here, "claims.json")))
props = [json.loads(l) for l in open(os.path.join(root, "properties.jsonl"))]
ids = [p["id"] for p in props]
checks, na = [], []
for pid in ids:
    c = claims.get(pid)
    if c is None:
        na.append({"property_id": pid, "reason": "not yet covered by the contract verifier in this round (see DESIGN.md §6 for the plan)"})
        continue
    if "not_applicable" in c:
        na.append({"property_id": pid, "reason": c["not_applicable"]})
        continue
    checks.append({
        "property_id": pid,
        "quick_cmd": "./bin/vcheck check %s --tier quick" % pid,
        "thorough_cmd": "./bin/vcheck check %s --tier thorough" % pid,
        "evidence_file": "/verif/evidence/%s.json" % pid,
        "replay_cmd_template": "./bin/vcheck replay {path}",
        "engine": "gowp",
        "level_claimed": {"category": c.get("category", "proof"), "text": c["text"], "design_ref": "DESIGN.md §6 " + pid},
        "level_note": c["note"],
        "technique": c.get("technique", "contract-based deductive verification: weakest-precondition style VCs over go/ssa of the real code, discharged by z3/cvc5"),
    })
m = {
    "version": 1,
    "setup_cmd": "./build.sh",
    "hooks": {
        "guard": "verif",
        "enable": "contracts are comment-only files <pkg>/verif_contracts*.go behind //go:build verif; the verifier loads /repo with -tags verif (replays: -tags 'test verif')",
        "baseline_off_cmd": "cd /repo && go test -vet=off -count=1 ./...",
        "source_commits": json.load(open(os.path.join(here, "hook_commits.json"))),
        "add_only": True,
    },
    "engines": [{"name": "gowp", "path": "gowp", "serves_properties": [c["property_id"] for c in checks],
                 "kind_free_text": "contract-based deductive verifier for Go written for this task: VC generation over go/ssa of the real code (x/tools v0.29.0), contracts as //@ comments in build-tagged files, obligations discharged by z3 5.1.0 / z3 4.8.12 / cvc5 1.0, counterexamples replayed on the real code with go test -overlay"}],
    "checks": checks,
    "not_applicable": na,
    "notes": "see DESIGN.md; known_findings.json lists genuine defects (fixed: entries suppress nothing)",
}
json.dump(m, open(os.path.join(root, "MANIFEST.json"), "w"), indent=1)
print("checks:", len(checks), "not_applicable:", len(na))
