#!/bin/sh
# usage: tools/mustpass.sh
# Must-pass corpus: every patch under mustpass/<Cxx>-*.patch is a change that
# keeps the property (behaviour-preserving rewrites, equivalent mutants); the
# check of <Cxx> must stay silent on it. The counterpart of tools/selftest.sh.
cd /verif
vd=$(mktemp -d /tmp/vself.XXXXXX)
cp -r props.json known_findings.json ledger bounded "$vd"/ 2>/dev/null
for p in mustpass/*.patch; do [ -f "$p" ] && echo "$(basename "$p" | cut -d- -f1) $p $vd"; done | xargs -P 6 -L 1 sh -c '
id=$0; p=$1; vd=$2
d=$(mktemp -d /tmp/vmut.XXXXXX)
(cd /repo && git ls-files -co --exclude-standard | rsync -a --files-from=- . "$d/")
if ! (cd "$d" && patch -p1 -s < "/verif/$p"); then echo "PATCH-FAILED $p"; rm -rf "$d"; exit 0; fi
o=$(mktemp -d /tmp/vout.XXXXXX); cp -r "$vd"/* "$o"/
out=$(/verif/bin/vcheck check "$id" --repo "$d" --verif "$o" --no-replay 2>&1); rc=$?
n=$(echo "$out" | grep -c "^VIOLATION")
if [ $rc -eq 0 ] && [ $n -eq 0 ]; then echo "ok    $p stays silent"; else echo "ALARM $p rc=$rc violations=$n: $(echo "$out" | grep "failed obl" | head -2)"; fi
rm -rf "$d" "$o"
'
rm -rf "$vd"
