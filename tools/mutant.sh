#!/bin/sh
# usage: tools/mutant.sh <Cxx> <patch.diff> [extra vcheck args]
# Applies a patch to a scratch copy of /repo's working tree (outside /repo and
# /verif), runs the property check against it, removes the copy.
id=$1; patch=$(realpath "$2"); shift 2
d=$(mktemp -d /tmp/vmut.XXXXXX)
(cd /repo && git ls-files -co --exclude-standard | rsync -a --files-from=- . "$d/")
if ! (cd "$d" && patch -p1 -s < "$patch"); then echo "PATCH-FAILED $patch"; rm -rf "$d"; exit 3; fi
(cd /verif && ./bin/vcheck check "$id" --repo "$d" --verif /verif "$@")
rc=$?
rm -rf "$d"
exit $rc
