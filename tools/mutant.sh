#!/bin/sh
# usage: tools/mutant.sh <Cxx> <patch.diff> [extra vcheck args]
# Applies a patch to a scratch copy of /repo's working tree (outside /repo and
# /verif), runs the property check against it with a scratch output directory
# (so evidence/, replays/ and out/ of /verif are not touched), removes both.
id=$1; patch=$(realpath "$2"); shift 2
d=$(mktemp -d /tmp/vmut.XXXXXX)
o=$(mktemp -d /tmp/vout.XXXXXX)
(cd /verif && cp -r props.json known_findings.json ledger bounded "$o"/)
(cd /repo && git ls-files -co --exclude-standard | rsync -a --files-from=- . "$d/")
if ! (cd "$d" && patch -p1 -s < "$patch"); then echo "PATCH-FAILED $patch"; rm -rf "$d" "$o"; exit 3; fi
(cd /verif && ./bin/vcheck check "$id" --repo "$d" --verif "$o" --no-replay "$@")
rc=$?
rm -rf "$d" "$o"
exit $rc
