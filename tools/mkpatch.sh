#!/bin/sh
# usage: tools/mkpatch.sh <repo-relative-file> <sed-expr> <out.patch>
f=$1; expr=$2; out=$3
tmp=$(mktemp)
sed "$expr" "/repo/$f" > "$tmp"
if cmp -s "$tmp" "/repo/$f"; then echo "NO-CHANGE $out"; rm -f "$tmp"; exit 1; fi
diff -u "/repo/$f" "$tmp" | sed "1s#.*#--- a/$f#; 2s#.*#+++ b/$f#" > "$out"
rm -f "$tmp"
