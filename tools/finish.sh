#!/bin/sh
# usage: tools/finish.sh Cxx  -- after a property's check is green: write ledger,
# refresh hook commit list and MANIFEST, validate.
set -e
cd /verif
id=$1
./bin/vcheck check $id --write-ledger >/dev/null
./bin/vcheck check $id | tail -1
git -C /repo log --grep '^verif' --format=%H | python3 -c 'import sys,json; json.dump([l.strip() for l in sys.stdin if l.strip()], open("tools/hook_commits.json","w"))'
python3 tools/gen_manifest.py
python3-vt - <<'PY'
import json, jsonschema
m=json.load(open('/verif/MANIFEST.json')); s=json.load(open('/root/.vp/MANIFEST.schema.json'))
jsonschema.validate(m,s); print("manifest valid")
import glob
es=json.load(open('/root/.vp/EVIDENCE.schema.json'))
for f in glob.glob('/verif/evidence/*.json'):
    jsonschema.validate(json.load(open(f)),es)
print("evidence valid")
PY
