#!/bin/sh
# usage: tools/mkworktree.sh <name>  -- scratch worktree of /repo HEAD under /tmp
# for a seeded-breakage sub-agent, with the contract files removed (a local
# scratch commit) so that the agent sees nothing of the verification machinery.
set -e
d=/tmp/wt-$1
git -C /repo worktree add -q --detach "$d" HEAD
cd "$d"
git rm -q $(git ls-files '*verif_contracts*.go')
git -c user.name=scratch -c user.email=s@x commit -q -m "scratch: worktree without contract files"
cp /repo/go.mod /repo/go.sum "$d"/ 2>/dev/null || true
echo "$d"
