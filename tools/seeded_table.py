#!/usr/bin/env python3
# Regenerates the table of seeded changes in DESIGN.md (between the markers
# <!-- seeded-table:begin --> and <!-- seeded-table:end -->) from
# seeded/<id>-<k>/{meta.json,result.json}.
import json, glob, os, re
rows, caught, missed = [], 0, []
for d in sorted(glob.glob('/verif/seeded/*-*')):
    name = os.path.basename(d)
    try:
        meta = json.load(open(d + '/meta.json'))
        res = json.load(open(d + '/result.json'))
    except Exception as e:
        continue
    by = [c for c in res['checks'] if c['rc'] == 1 and c['violations'] > 0]
    summ = meta.get('summary', '').replace('|', '/').replace('\n', ' ')[:150]
    ok = res['build'] == 'ok' and res['demo_rc_changed'] != 0 and res['demo_rc_clean'] == 0
    if by:
        caught += 1
        first = by[0]['first'].split(';')[0]
        first = re.sub(r'^C\d\d/', '', first.split(' [')[0])
        rows.append('| %s | %s | %s | `%s` |' % (name, summ, ', '.join(c['check'] for c in by), first[:110]))
    else:
        missed.append(name)
        rows.append('| %s | %s | **missed** | — |' % (name, summ))
    if not ok:
        rows[-1] += ' (confirmation incomplete)'
hdr = '%d seeded changes, %d caught by a check, %d missed%s (all confirmed by me: the patch applies, the tree builds, the demonstration fails on the changed tree and passes on the unchanged one).\n\n' % (
    len(rows), caught, len(missed), (' (' + ', '.join(missed) + ')') if missed else '')
tbl = hdr + '| change | what it does | caught by | first failing obligation |\n|---|---|---|---|\n' + '\n'.join(rows) + '\n'
p = '/verif/DESIGN.md'
s = open(p).read()
b, e = '<!-- seeded-table:begin -->\n', '<!-- seeded-table:end -->\n'
if b in s:
    s = s[:s.index(b) + len(b)] + tbl + s[s.index(e):]
    open(p, 'w').write(s)
print(hdr)
