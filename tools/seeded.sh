#!/bin/sh
# usage: tools/seeded.sh <Cxx> <k> [other check ids...]
# Confirms a seeded change produced by a sub-agent (/tmp/seeded-out/<Cxx>/<k>/) and
# runs the checks against it: applies the patch to /repo, builds, runs the
# demonstration (must fail), runs the checks (scratch output dir), undoes the
# patch (git checkout), runs the demonstration again (must pass). Keeps the
# change under /verif/seeded/<Cxx>-<k>/ with the outcome in result.json.
export GOFLAGS=-mod=mod GOPROXY=off GOSUMDB=off GOTOOLCHAIN=local
id=$1; k=$2; shift 2; others="$@"
src=/tmp/seeded-out/$id/$k
dst=/verif/seeded/$id-$k
[ -d "$src" ] || { echo "no $src"; exit 2; }
mkdir -p "$dst"; cp "$src"/patch.diff "$src"/demo_test.go "$src"/meta.json "$dst"/ ; cp "$src"/demo_output.txt "$dst"/ 2>/dev/null
pkg=$(python3 -c "import json;print(json.load(open('$dst/meta.json'))['demo_pkg_dir'])")
cmd=$(python3 -c "import json;print(json.load(open('$dst/meta.json'))['demo_cmd'])")
cd /repo
[ -z "$(git status --porcelain)" ] || { echo "/repo not clean"; exit 2; }
git apply "$dst/patch.diff" || { echo "APPLY-FAILED"; exit 2; }
b1=ok; go build ./... >/dev/null 2>&1 || b1=fail; go build -tags test ./... > /dev/null 2>&1 || b1=fail
cp "$dst/demo_test.go" "/repo/$pkg/zz_seeded_demo_test.go"
(cd /repo && timeout 600 sh -c "$cmd" > /tmp/seeded-demo-changed.txt 2>&1); rc_changed=$?
rm -f "/repo/$pkg/zz_seeded_demo_test.go"
det=""
for c in $id $others; do
  o=$(mktemp -d /tmp/vout.XXXXXX); cp -r /verif/props.json /verif/known_findings.json /verif/ledger /verif/bounded "$o"/
  out=$(/verif/bin/vcheck check $c --verif "$o" --no-replay 2>&1); rc=$?
  n=$(echo "$out" | grep -c '^VIOLATION')
  first=$(echo "$out" | grep '^  failed obligation' | head -3 | sed 's/^  failed obligation //' | tr '\n' ';')
  det="$det{\"check\":\"$c\",\"rc\":$rc,\"violations\":$n,\"first\":\"$(echo $first | sed 's/"/\\"/g')\"},"
  rm -rf "$o"
done
git -C /repo checkout -- .
cp "$dst/demo_test.go" "/repo/$pkg/zz_seeded_demo_test.go"
(cd /repo && timeout 600 sh -c "$cmd" > /tmp/seeded-demo-clean.txt 2>&1); rc_clean=$?
rm -f "/repo/$pkg/zz_seeded_demo_test.go"
[ -z "$(git -C /repo status --porcelain)" ] || echo "WARNING: /repo not clean after run"
echo "{\"id\":\"$id\",\"k\":$k,\"build\":\"$b1\",\"demo_rc_changed\":$rc_changed,\"demo_rc_clean\":$rc_clean,\"checks\":[${det%,}]}" > "$dst/result.json"
cat "$dst/result.json"; echo
rm -f /tmp/seeded-demo-changed.txt /tmp/seeded-demo-clean.txt
